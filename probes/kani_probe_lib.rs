use deno_graph::*;
use url::Url;
use std::sync::Arc;

#[cfg(kani)]
#[kani::proof]
#[kani::unwind(20)]
fn url_parse() {
    let u = Url::parse("file:///a.ts").unwrap();
    assert!(u.scheme() == "file");
}

#[cfg(kani)]
#[kani::proof]
#[kani::unwind(12)]
fn decode_utf8() {
    let len: usize = kani::any();
    kani::assume(len <= 3);
    let buf: [u8; 3] = kani::any();
    let orig: Vec<u8> = buf[..len].to_vec();
    let bytes: Arc<[u8]> = Arc::from(&buf[..len]);
    let d = deno_media_type::encoding::decode_arc_source_detail("utf-8", bytes);
    if let Ok(d) = d {
        let src = ModuleTextSource { text: d.text, decoded_kind: d.kind };
        if let Some(ob) = src.try_get_original_bytes() {
            assert!(ob.len() == orig.len());
            let mut i = 0;
            while i < ob.len() { assert!(ob[i] == orig[i]); i += 1; }
        }
    }
}

#[cfg(kani)]
#[kani::proof]
#[kani::unwind(6)]
fn resolve_version_real() {
    use deno_semver::*;
    use deno_graph::packages::*;
    use std::collections::HashMap;
    let mk = |maj: u8, min: u8| Version { major: maj as u64, minor: min as u64, patch: 0, pre: Default::default(), build: Default::default() };
    let v1 = mk(kani::any(), kani::any());
    let v2 = mk(kani::any(), kani::any());
    let lo = mk(kani::any(), kani::any());
    let req = VersionReq::from_raw_text_and_inner(
        SmallStackString::from_static("x"),
        RangeSetOrTag::RangeSet(VersionRangeSet(CowVec::from([VersionRange {
            start: RangeBound::inclusive(lo.clone()),
            end: RangeBound::Unbounded,
        }]))),
    );
    let vs = [(&v1, None), (&v2, None)];
    let r = resolve_version(ResolveVersionOptions { version_req: &req, newest_dependency_date: None }, vs.into_iter());
    match r {
        ResolveVersionResult::Some(v) => {
            assert!(req.matches(v));
            assert!(!(req.matches(&v1) && v1 > *v));
            assert!(!(req.matches(&v2) && v2 > *v));
        }
        ResolveVersionResult::None { .. } => {
            assert!(!req.matches(&v1) && !req.matches(&v2));
        }
    }
    std::mem::forget(req);
}
