#!/usr/bin/env python3
"""Spike: C15-style query on the real MIR of ModuleEntryIterator::{new,next}: yielded set == reachable set, no duplicates."""
import sys, time, z3
from engine import *
import models

N = int(sys.argv[1]); D = int(sys.argv[2]); MIR = sys.argv[3] if len(sys.argv) > 3 else '/tmp/probe/mir_nodefault.txt'
t0 = time.time()
eng = Engine(open(MIR).read(), '/repo', unroll=4 * D + N + 8)
eng.N, eng.D, eng.DQ, eng.VK = N, D, N + 2, 2
O = Opaque('x')
s = z3.Solver()
MT = ENUMS['MediaType']

def sym_res(name):
    k = z3.BitVec(name + '_k', W); t = z3.BitVec(name + '_t', 8)
    s.add(z3.ULE(k, 2), z3.ULT(t, N))
    box = Root(Agg([UrlV(t), O]), name)
    return EnumV(k, {0: Agg([]), 1: Agg([Ptr([(TRUE, (box, ()))])]), 2: Agg([O])}), (k, t)

world = {'slot': [], 'deps': [], 'td': [], 'mt': [], 'red': []}
slot_vals, slot_present = [], []
for i in range(N):
    deps_p, deps_v, deps_info = [], [], []
    for d in range(D):
        p = z3.Bool(f'm{i}d{d}_p'); dyn = z3.Bool(f'm{i}d{d}_dyn')
        code, ci = sym_res(f'm{i}d{d}_code'); typ, ti = sym_res(f'm{i}d{d}_type')
        deps_p.append(p); deps_v.append(Agg([code, typ, O, dyn, O, O])); deps_info.append((p, dyn, ci, ti))
    tdp = z3.Bool(f'm{i}_tdp'); tdr, tdi = sym_res(f'm{i}_td')
    mt = z3.BitVec(f'm{i}_mt', W); s.add(z3.ULT(mt, len(MT)))
    js = Agg([z3.BoolVal(False), SlotMap(deps_p, [O] * D, deps_v), O, O, O,
              EnumV(IF(tdp, BV(1), BV(0)), {1: Agg([Agg([O, tdr])]), 0: Agg([])}), EnumV(mt, {}), UrlV(z3.BitVecVal(i, 8)), O])
    json = Agg([UrlV(z3.BitVecVal(i, 8)), O, O, O, EnumV(BV(MT.index('Json')), {})])
    ext = Agg([UrlV(z3.BitVecVal(i, 8)), O, z3.Bool(f'm{i}_asset')])
    mk = z3.BitVec(f'm{i}_modkind', W); s.add(z3.Or(mk == 0, mk == 1, mk == 5))
    module = EnumV(mk, {0: Agg([js]), 1: Agg([json]), 5: Agg([ext])})
    sk = z3.BitVec(f'm{i}_slotkind', W); s.add(z3.ULE(sk, 2))
    slot_vals.append(EnumV(sk, {0: Agg([module]), 1: Agg([O]), 2: Agg([z3.Bool(f'm{i}_passet')])}))
    sp = z3.Bool(f'm{i}_present'); slot_present.append(sp)
    rp = z3.Bool(f'r{i}_p'); rt = z3.BitVec(f'r{i}_t', 8); s.add(z3.ULT(rt, N), rt != i)
    world['slot'].append((sp, sk, mk)); world['deps'].append(deps_info); world['td'].append((tdp, tdi)); world['mt'].append(mt); world['red'].append((rp, rt))
gkind = z3.BitVec('graph_kind', W); s.add(z3.ULE(gkind, 2))
graph = Agg([EnumV(gkind, {}), O, MapModel(slot_present, slot_vals), SlotMap([], [], []),
             MapModel([r[0] for r in world['red']], [UrlV(r[1]) for r in world['red']]), z3.BoolVal(False), O, O])
groot = Root(graph, 'graph'); gptr = Ptr([(TRUE, (groot, ()))])
import os
cube = dict(kv.split('=') for kv in os.environ.get('CUBE', '').split(',') if kv)
wkind = BV(int(cube['wkind'])) if 'wkind' in cube else z3.BitVec('walk_kind', W); s.add(z3.ULE(wkind, 2))
cj = BV(int(cube['cj'])) if 'cj' in cube else z3.BitVec('check_js', W); s.add(z3.ULE(cj, 2))
follow_dyn = z3.BoolVal(cube['fd'] == '1') if 'fd' in cube else z3.Bool('follow_dynamic'); pfc = z3.Bool('prefer_fc')
eng.world_checkjs = [z3.Bool(f'checkjs{i}') for i in range(N)]
options = Agg([EnumV(cj, {2: Agg([O])}), follow_dyn, EnumV(wkind, {}), pfc])
rootsel = [z3.Bool(f'root{i}') for i in range(N)]
roots_iter = IterModel([(rootsel[i], url_ref(z3.BitVecVal(i, 8))) for i in range(N)])

NEW = 'graph::<impl at src/graph.rs:1818:1: 1818:53>::new'
NEXT = 'graph::<impl at src/graph.rs:1942:1: 1942:50>::next'
it = eng.call(NEW, [gptr, roots_iter, options], TRUE)
itroot = Root(it, 'iter'); itptr = Ptr([(TRUE, (itroot, ()))])
ys = []
for k in range(N + 1):
    r = eng.call(NEXT, [itptr], TRUE)
    is_some = r.tag == BV(1)
    pair = r.vars[1].f[0]
    yid = models.uid(eng, pair.f[0])
    ys.append((is_some, yid, pair.f[1].tag))
last = eng.call(NEXT, [itptr], TRUE)
t1 = time.time()
print(f'encoded in {t1 - t0:.1f}s; blocks executed {eng.stats["blocks"]}, calls {eng.stats["calls"]}, unwinding guards {len(eng.exceeded)}, asserts {len(eng.failed_asserts)}')

# ---------------- oracle (independent of the MIR): reachability fixpoint
inc_types = wkind != 1
types_only = wkind == 2
def checkable(i):
    mt = world['mt'][i]
    ts = z3.Or([mt == MT.index(x) for x in ['TypeScript', 'Mts', 'Cts', 'Dts', 'Dmts', 'Dcts', 'Tsx', 'Json', 'Wasm']])
    jsl = z3.Or([mt == MT.index(x) for x in ['JavaScript', 'Jsx', 'Mjs', 'Cjs']])
    cjv = z3.If(cj == 0, True, z3.If(cj == 1, False, eng.world_checkjs[i]))
    return z3.Or(ts, z3.And(jsl, cjv))
has_slot = [world['slot'][i][0] for i in range(N)]
is_mod = [z3.And(has_slot[i], world['slot'][i][1] == 0) for i in range(N)]
is_err = [z3.And(has_slot[i], world['slot'][i][1] == 1) for i in range(N)]
is_js = [z3.And(is_mod[i], world['slot'][i][2] == 0) for i in range(N)]
td_ok = [z3.And(world['td'][i][0], world['td'][i][1][0] == 1) for i in range(N)]
skipped = [z3.And(is_js[i], types_only, z3.Or(td_ok[i], z3.Not(checkable(i)))) for i in range(N)]
is_redirect = [z3.And(z3.Not(has_slot[i]), world['red'][i][0]) for i in range(N)]
def edge(i, j):
    es = [z3.And(is_redirect[i], world['red'][i][1] == j)]
    es.append(z3.And(is_js[i], inc_types, td_ok[i], world['td'][i][1][1] == j))
    for (p, dyn, (ck, ct), (tk, tt)) in world['deps'][i]:
        follow = z3.And(is_js[i], z3.Not(skipped[i]), p, z3.Or(z3.Not(dyn), follow_dyn))
        es.append(z3.And(follow, ck == 1, ct == j))
        es.append(z3.And(follow, inc_types, tk == 1, tt == j))
    return z3.Or(es)
E = [[edge(i, j) for j in range(N)] for i in range(N)]
reach = list(rootsel)
for _ in range(N):
    reach = [z3.Or(reach[j], z3.Or([z3.And(reach[i], E[i][j]) for i in range(N)])) for j in range(N)]
yields = [z3.And(reach[i], z3.Or(is_err[i], z3.And(is_mod[i], z3.Not(skipped[i])), is_redirect[i])) for i in range(N)]

got = [z3.Or([z3.And(y[0], y[1] == i) for y in ys]) for i in range(N)]
dup = z3.Or([z3.And(ys[a][0], ys[b][0], ys[a][1] == ys[b][1]) for a in range(len(ys)) for b in range(a + 1, len(ys))])
mismatch = z3.Or([got[i] != yields[i] for i in range(N)])
not_exhausted = last.tag == BV(1)

def check(name, f, expect):
    s.push(); s.add(f); t = time.time(); r = s.check(); dt = time.time() - t
    print(f'{name}: {r} ({dt:.1f}s) expected {expect}')
    if r == z3.sat and expect == 'unsat':
        m = s.model()
        print('  model:', sorted([(str(d), m[d]) for d in m.decls() if not str(d).endswith('_t') or True], key=lambda x: x[0])[:80])
    s.pop(); return r
check('unwinding assertions', z3.Or([g for _, g in eng.exceeded]) if eng.exceeded else z3.BoolVal(False), 'unsat')
check('capacity/asserts', z3.Or([g for _, g in eng.failed_asserts]) if eng.failed_asserts else z3.BoolVal(False), 'unsat')
check('iterator not exhausted after N+1 yields', not_exhausted, 'unsat')
check('witness: N entries yielded incl. a redirect', z3.And([y[0] for y in ys[:N]] + [z3.Or([y[2] == 2 for y in ys[:N]])]), 'sat')
check('duplicate yield', dup, 'unsat')
check('yielded set != reachable set', mismatch, 'unsat')
print(f'total {time.time() - t0:.1f}s')
