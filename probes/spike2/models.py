"""Environment models for out-of-crate callees (spike subset)."""
import re, z3
from engine import *

def R(p): return re.compile(p)
def some(v, tag=None): return EnumV(BV(1) if tag is None else tag, {1: Agg([v]), 0: Agg([])})
def none(): return EnumV(BV(0), {0: Agg([])})
def opt(cond, v): return EnumV(IF(cond, BV(1), BV(0)), {1: Agg([v]), 0: Agg([])})
def uid(eng, ref):
    v = eng.load(ref) if isinstance(ref, Ptr) else ref
    assert isinstance(v, UrlV), v
    return v.id

def set_with_capacity(eng, c, a, g): return SetModel([FALSE] * eng.N, BV(0))
def set_insert(eng, c, a, g):
    s = eng.load(a[0]); u = uid(eng, a[1])
    was = OR(*[AND(u == i, s.mem[i]) for i in range(eng.N)])
    ns = SetModel([OR(s.mem[i], u == i) for i in range(eng.N)], IF(was, s.count, s.count + 1))
    eng.store(a[0], ns, g)
    return NOT(was)
def set_len(eng, c, a, g): return eng.load(a[0]).count

def dq_new(eng, c, a, g): return DequeModel([z3.BitVecVal(0, 8)] * eng.DQ, BV(0))
def dq_push_back(eng, c, a, g):
    d = eng.load(a[0]); u = uid(eng, a[1])
    eng.failed_asserts.append(('deque capacity', AND(g, d.len == eng.DQ)))
    eng.store(a[0], DequeModel([IF(d.len == i, u, d.items[i]) for i in range(eng.DQ)], d.len + 1), g)
    return UNIT
def dq_push_front(eng, c, a, g):
    d = eng.load(a[0]); u = uid(eng, a[1])
    eng.failed_asserts.append(('deque capacity', AND(g, d.len == eng.DQ)))
    eng.store(a[0], DequeModel([u] + d.items[:-1], d.len + 1), g)
    return UNIT
def dq_pop_front(eng, c, a, g):
    d = eng.load(a[0])
    nonempty = d.len != 0
    eng.store(a[0], DequeModel(d.items[1:] + [z3.BitVecVal(0, 8)], IF(nonempty, d.len - 1, d.len)), g)
    return opt(nonempty, url_ref(d.items[0]))

def vec_with_capacity(eng, c, a, g): return VecModel([None] * eng.VK, BV(0))
def vec_push(eng, c, a, g):
    v = eng.load(a[0])
    eng.store(a[0], VecModel([ite(v.len == i, a[1], v.items[i]) for i in range(eng.VK)], v.len + 1), g)
    return UNIT
def vec_into_iter(eng, c, a, g):
    v = a[0]
    return IterModel([(z3.ULT(BV(i), v.len), v.items[i]) for i in range(eng.VK) if v.items[i] is not None])

def iter_identity(eng, c, a, g): return a[0]
def iter_next(eng, c, a, g):
    it = eng.load(a[0])
    avail = [AND(av, NOT(cons)) for (av, _), cons in zip(it.items, it.consumed)]
    sel, before = [], FALSE
    for x in avail:
        sel.append(AND(x, NOT(before))); before = OR(before, x)
    val = None
    for s, (_, v) in zip(sel, it.items): val = v if val is None else ite(s, v, val)
    eng.store(a[0], IterModel(it.items, [OR(cn, s) for cn, s in zip(it.consumed, sel)]), g)
    if val is None: return none()
    return opt(before, val)
def iter_rev(eng, c, a, g): return IterModel(a[0].items[::-1], a[0].consumed[::-1])

def slotmap_values(eng, c, a, g, pairs=False):
    items = []
    for cnd, (r, p) in a[0].targets:
        m = eng.read((r, p))
        if m is None: continue
        for i in range(len(m.present)):
            ref = Ptr([(TRUE, (r, p + (('k', i),)))])
            items.append((AND(cnd, m.present[i]), Agg([Opaque('keyref'), ref]) if pairs else ref))
    return IterModel(items)
def slotmap_iter_pairs(eng, c, a, g): return slotmap_values(eng, c, a, g, pairs=True)
def flat_map(eng, c, a, g):
    outer, clo = a[0], a[1]
    items = []
    for av, v in outer.items:
        inner_ref = eng.call_closure(clo, [v], AND(g, av))
        inner = slotmap_values(eng, c, [inner_ref], g, pairs=True)
        items += [(AND(av, x), y) for x, y in inner.items]
    return IterModel(items)
def slotmap_len(eng, c, a, g):
    m = eng.load(a[0]); return z3.Sum([IF(p, BV(1), BV(0)) for p in m.present]) if m.present else BV(0)

def option_take(eng, c, a, g):
    v = eng.load(a[0]); eng.store(a[0], none(), g); return v
def option_as_ref(eng, c, a, g):
    v = eng.load(a[0])
    ref = Ptr([(cnd, (r, p + (('v', 1), ('f', 0)))) for cnd, (r, p) in a[0].targets])
    return EnumV(v.tag, {1: Agg([ref]), 0: Agg([])})
def option_map(eng, c, a, g):
    o, clo = a[0], a[1]
    is_some = o.tag == BV(1)
    if z3.is_false(z3.simplify(is_some)) or 1 not in o.vars or not o.vars[1].f: return none()
    r = eng.call_closure(clo, [o.vars[1].f[0]], AND(g, is_some))
    return EnumV(o.tag, {1: Agg([r]), 0: Agg([])})
def try_branch_option(eng, c, a, g):
    o = a[0]
    payload = o.vars[1].f[0] if 1 in o.vars and o.vars[1].f else None
    return EnumV(IF(o.tag == BV(1), BV(0), BV(1)), {0: Agg([payload]), 1: Agg([none()])})
def from_residual_none(eng, c, a, g): return none()

def map_get_key_value(eng, c, a, g, with_key=True):
    u = uid(eng, a[1])
    found, refs = FALSE, []
    for cnd, (r, p) in a[0].targets:
        m = eng.read((r, p))
        if m is None: continue
        for i in range(len(m.present)):
            hit = AND(cnd, u == i)
            found = OR(found, AND(hit, m.present[i]))
            refs.append((hit, (r, p + (('k', i),))))
    vref = Ptr(refs)
    return opt(found, Agg([url_ref(u), vref]) if with_key else vref)
def map_get(eng, c, a, g): return map_get_key_value(eng, c, a, g, with_key=False)
def map_len(eng, c, a, g):
    m = eng.load(a[0]); return z3.Sum([IF(p, BV(1), BV(0)) for p in m.present])

def enum_eq(eng, c, a, g): return eng.load(a[0]).tag == eng.load(a[1]).tag
def once_lock_empty(eng, c, a, g):
    if not hasattr(eng, 'empty_deps'): eng.empty_deps = Root(SlotMap([FALSE] * eng.D, [None] * eng.D, [None] * eng.D), 'EMPTY_DEPS')
    return Ptr([(TRUE, (eng.empty_deps, ()))])
def check_js_custom(eng, c, a, g):
    u = uid(eng, a[1]); r = FALSE
    for i in range(eng.N): r = IF(u == i, eng.world_checkjs[i], r)
    return r
def log_off(eng, c, a, g): return FALSE

MODELS = [
    (R(r'HashSet::<&Url>::with_capacity'), set_with_capacity),
    (R(r'HashSet::<&Url>::insert'), set_insert),
    (R(r'HashSet::<&Url>::len'), set_len),
    (R(r'VecDeque::<&Url>::new'), dq_new),
    (R(r'VecDeque::<&Url>::push_back'), dq_push_back),
    (R(r'VecDeque::<&Url>::push_front'), dq_push_front),
    (R(r'VecDeque::<&Url>::pop_front'), dq_pop_front),
    (R(r'Vec::<.*>::with_capacity'), vec_with_capacity),
    (R(r'Vec::<.*>::push'), vec_push),
    (R(r'<Vec<.*> as IntoIterator>::into_iter'), vec_into_iter),
    (R(r'<.* as IntoIterator>::into_iter'), iter_identity),
    (R(r'<.* as Iterator>::next'), iter_next),
    (R(r'<.* as Iterator>::rev'), iter_rev),
    (R(r'<.* as Iterator>::flat_map::<.*'), flat_map),
    (R(r'IndexMap::<.*>::values'), slotmap_values),
    (R(r'IndexMap::<.*>::len'), slotmap_len),
    (R(r'BTreeMap::<.*>::len'), map_len),
    (R(r'std::option::Option::<.*>::take'), option_take),
    (R(r'std::option::Option::<.*>::as_ref'), option_as_ref),
    (R(r'std::option::Option::<.*>::map::<.*'), option_map),
    (R(r'<std::option::Option<.*> as Try>::branch'), try_branch_option),
    (R(r'<std::option::Option<.*> as FromResidual<.*>>::from_residual'), from_residual_none),
    (R(r'BTreeMap::<.*>::get_key_value::<.*>'), map_get_key_value),
    (R(r'BTreeMap::<.*>::get::<.*>'), map_get),
    (R(r'<GraphKind as PartialEq>::eq'), enum_eq),
    (R(r'OnceLock::<.*>::get_or_init::<.*'), once_lock_empty),
    (R(r'<dyn CheckJsResolver as CheckJsResolver>::resolve'), check_js_custom),
    (R(r'<Level as PartialOrd<LevelFilter>>::le'), log_off),
]
