"""Spike 2: general guarded-single-store symbolic executor for rustc MIR text, with container models."""
import re, sys, time
import z3
from mirparse import Fn, split_functions

TRUE, FALSE = z3.BoolVal(True), z3.BoolVal(False)
def AND(*xs):
    ys = []
    for x in xs:
        if z3.is_false(x): return FALSE
        if not z3.is_true(x): ys.append(x)
    return z3.And(ys) if len(ys) > 1 else (ys[0] if ys else TRUE)
def OR(*xs):
    ys = []
    for x in xs:
        if z3.is_true(x): return TRUE
        if not z3.is_false(x): ys.append(x)
    return z3.Or(ys) if len(ys) > 1 else (ys[0] if ys else FALSE)
def NOT(x):
    if z3.is_true(x): return FALSE
    if z3.is_false(x): return TRUE
    return z3.Not(x)
def IF(g, a, b):
    if z3.is_true(g): return a
    if z3.is_false(g): return b
    if a.eq(b): return a
    return z3.If(g, a, b)
W = 16  # bit width used for usize/isize in this spike (bounded worlds never overflow it)
def BV(v, w=W): return z3.BitVecVal(v, w)
def EQ(a, b):
    r = z3.simplify(a == b) if (z3.is_bv_value(a) and z3.is_bv_value(b)) else (a == b)
    return r

class Unsupported(Exception): pass

# ------------------------------------------------------------------ values
class Agg:
    def __init__(self, f): self.f = list(f)
    def __repr__(self): return f'Agg{self.f}'
class EnumV:
    def __init__(self, tag, vars): self.tag, self.vars = (BV(tag) if isinstance(tag, int) else tag), vars
    def __repr__(self): return f'Enum({self.tag},{self.vars})'
class Ptr:
    def __init__(self, targets): self.targets = targets
    def __repr__(self): return f'Ptr({len(self.targets)})'
class UrlV:
    def __init__(self, id): self.id = id
class StrV:
    def __init__(self, s): self.s = s
class ClosureV:
    def __init__(self, span, env): self.span, self.env = span, env
class Opaque:
    def __init__(self, what): self.what = what
UNIT = Agg([])
class Root:
    n = 0
    def __init__(self, val=None, name=''):
        self.val = val; Root.n += 1; self.id = Root.n; self.name = name
URLTAB = Root(name='urltab')
def url_ref(idterm): return Ptr([(TRUE, (URLTAB, (('u', idterm),)))])

def place_key(pl):
    root, path = pl
    return (root.id,) + tuple((s[0], s[1] if not z3.is_expr(s[1]) else s[1].get_id()) for s in path)

def ite(g, a, b):
    """value-level merge: g ? a : b"""
    if b is None: return a
    if a is None: return b
    if a is b: return a
    if z3.is_true(g): return a
    if z3.is_false(g): return b
    if isinstance(a, bool): a = z3.BoolVal(a)
    if isinstance(b, bool): b = z3.BoolVal(b)
    if z3.is_expr(a) and z3.is_expr(b): return IF(g, a, b)
    if isinstance(a, Agg) and isinstance(b, Agg):
        n = max(len(a.f), len(b.f))
        return Agg([ite(g, a.f[i] if i < len(a.f) else None, b.f[i] if i < len(b.f) else None) for i in range(n)])
    if isinstance(a, EnumV) and isinstance(b, EnumV):
        vs = {}
        for k in set(a.vars) | set(b.vars): vs[k] = ite(g, a.vars.get(k), b.vars.get(k))
        return EnumV(IF(g, a.tag, b.tag), vs)
    if isinstance(a, Ptr) and isinstance(b, Ptr):
        acc = {}
        for c, p in [(AND(g, c), p) for c, p in a.targets] + [(AND(NOT(g), c), p) for c, p in b.targets]:
            if z3.is_false(c): continue
            k = place_key(p)
            acc[k] = (OR(acc[k][0], c), p) if k in acc else (c, p)
        return Ptr(list(acc.values()))
    if isinstance(a, UrlV) and isinstance(b, UrlV): return UrlV(IF(g, a.id, b.id))
    if hasattr(a, 'merge') and type(a) is type(b): return a.merge(g, b)
    if isinstance(a, (Opaque, StrV, ClosureV)): return a
    raise Unsupported(f'ite of {type(a).__name__} / {type(b).__name__}')

# ------------------------------------------------------------------ models (immutable, functional)
class MapModel:
    """map over the finite url-id universe 0..n-1: presence bit + value per key"""
    def __init__(self, present, vals): self.present, self.vals = list(present), list(vals)
    def merge(self, g, o): return MapModel([IF(g, a, b) for a, b in zip(self.present, o.present)], [ite(g, a, b) for a, b in zip(self.vals, o.vals)])
    def slot(self, i): return self.vals[i]
    def with_slot(self, i, v): vs = list(self.vals); vs[i] = v; return MapModel(self.present, vs)
class SlotMap:
    """insertion-ordered map with D slots (IndexMap): presence, key value, value"""
    def __init__(self, present, keys, vals): self.present, self.keys, self.vals = list(present), list(keys), list(vals)
    def merge(self, g, o): return SlotMap([IF(g, a, b) for a, b in zip(self.present, o.present)], [ite(g, a, b) for a, b in zip(self.keys, o.keys)], [ite(g, a, b) for a, b in zip(self.vals, o.vals)])
    def slot(self, i): return self.vals[i]
    def with_slot(self, i, v): vs = list(self.vals); vs[i] = v; return SlotMap(self.present, self.keys, vs)
class SetModel:
    def __init__(self, mem, count): self.mem, self.count = list(mem), count
    def merge(self, g, o): return SetModel([IF(g, a, b) for a, b in zip(self.mem, o.mem)], IF(g, self.count, o.count))
class DequeModel:
    def __init__(self, items, ln): self.items, self.len = list(items), ln
    def merge(self, g, o): return DequeModel([IF(g, a, b) for a, b in zip(self.items, o.items)], IF(g, self.len, o.len))
class VecModel:
    def __init__(self, items, ln): self.items, self.len = list(items), ln
    def merge(self, g, o): return VecModel([ite(g, a, b) for a, b in zip(self.items, o.items)], IF(g, self.len, o.len))
class IterModel:
    """guarded sequence with per-item consumed bits"""
    def __init__(self, items, consumed=None): self.items = list(items); self.consumed = consumed or [FALSE] * len(self.items)
    def merge(self, g, o):
        a, b = self, o
        n = max(len(a.items), len(b.items))
        pad = lambda it: IterModel(it.items + [(FALSE, None)] * (n - len(it.items)), it.consumed + [FALSE] * (n - len(it.items)))
        self, o = pad(a), pad(b)
        return IterModel([(IF(g, a[0], b[0]), ite(g, a[1], b[1])) for a, b in zip(self.items, o.items)], [IF(g, a, b) for a, b in zip(self.consumed, o.consumed)])

ENUMS = {
    'Option': ['None', 'Some'], 'Result': ['Ok', 'Err'], 'ControlFlow': ['Continue', 'Break'],
    'ModuleSlot': ['Module', 'Err', 'Pending'], 'Module': ['Js', 'Json', 'Wasm', 'Npm', 'Node', 'External'],
    'Resolution': ['None', 'Ok', 'Err'], 'ModuleEntryRef': ['Module', 'Err', 'Redirect'],
    'GraphKind': ['All', 'CodeOnly', 'TypesOnly'], 'CheckJsOption': ['True', 'False', 'Custom'],
    'MediaType': ['JavaScript', 'Jsx', 'Mjs', 'Cjs', 'TypeScript', 'Mts', 'Cts', 'Dts', 'Dmts', 'Dcts', 'Tsx', 'Css', 'Json', 'Jsonc', 'Json5', 'Markdown', 'Html', 'Sql', 'Wasm', 'SourceMap', 'Unknown'],
}
def type_head(ty):
    ty = ty.strip()
    while True:
        m = re.match(r"(&'?\w*\s*(mut )?|\*const |\*mut |mut )", ty)
        if m and m.group(0): ty = ty[len(m.group(0)):]
        else: break
    ty = re.sub(r"^&('\w+ )?(mut )?", '', ty)
    head = re.split(r'<', ty, 1)[0]
    return head.split('::')[-1]
def strip_generics(path):
    out, depth = '', 0
    i = 0
    while i < len(path):
        c = path[i]
        if c == '<': depth += 1
        elif c == '>' and not (i > 0 and path[i-1] == '-'): depth -= 1
        elif depth == 0: out += c
        i += 1
    return re.sub(r'::(?=::)', '', out).replace('::::', '::')

# ------------------------------------------------------------------ engine
class Frame:
    def __init__(self, fn): self.fn = fn; self.roots = {}
    def root(self, n):
        if n not in self.roots: self.roots[n] = Root(name=f'{self.fn.name[-20:]}:_{n}')
        return self.roots[n]

class Engine:
    def __init__(self, mir_txt, src_dir, unroll=24):
        self.fn_text, self.consts = split_functions(mir_txt)
        self.fns = {}
        self.src_dir = src_dir
        self.unroll = unroll
        self.exceeded = []       # unwinding assertions
        self.failed_asserts = [] # capacity / assert guards
        self.index = self.build_index()
        self.stats = {'blocks': 0, 'calls': 0}

    # ---- definition index: (SelfType, method) -> mir fn name
    def build_index(self):
        idx, src = {}, {}
        for name in self.fn_text:
            m = re.match(r'(?:(\w+)::)*<impl at (src/[\w/]+\.rs):(\d+):\d+: \d+:\d+>::(\w+)((?:::\{closure#\d+\})*)$', name)
            if m:
                f, line, meth, clos = m.group(2), int(m.group(3)), m.group(4), m.group(5)
                if f not in src: src[f] = open(f'{self.src_dir}/{f}').read().split('\n')
                hdr = src[f][line - 1]
                mm = re.match(r'\s*impl(?:<[^>]*>)?\s+(?:(.+?)\s+for\s+)?([\w:]+)', hdr)
                if mm:
                    selfty = mm.group(2).split('::')[-1]
                    idx[(selfty, meth + clos)] = name
            elif re.fullmatch(r'[\w:]+', name):
                idx[(None, name.split('::')[-1])] = name
        return idx

    def get_fn(self, name):
        if name not in self.fns: self.fns[name] = Fn(name, self.fn_text[name])
        return self.fns[name]

    def find_closure_fn(self, span):
        for name, text in self.fn_text.items():
            if '{closure#' in name:
                hdr = text[:text.index('{\n')] if '{\n' in text else text
                if ('{closure@' + span + '}') in text.split('\n', 1)[0]: return name
        raise Unsupported('closure body not found: ' + span)

    # ---- memory
    def step_into(self, v, step):
        k = step[0]
        if v is None or isinstance(v, Opaque): return None
        if k == 'f':
            if isinstance(v, Ptr): return v            # Box/Unique/NonNull wrappers are transparent
            if isinstance(v, Agg): return v.f[step[1]] if step[1] < len(v.f) else None
            raise Unsupported(f'field of {v!r}')
        if k == 'v':
            return v.vars.get(step[1]) if isinstance(v, EnumV) else None
        if k == 'k': return v.slot(step[1])
        if k == 'u': return UrlV(step[1])
        raise Unsupported(f'step {step}')

    def read(self, pl):
        root, path = pl
        v = root.val if root is not URLTAB else None
        for i, s in enumerate(path):
            if root is URLTAB and i == 0: v = UrlV(s[1]); continue
            v = self.step_into(v, s)
        return v

    def upd(self, v, path, val, g):
        if not path: return ite(g, val, v)
        s, rest = path[0], path[1:]
        if s[0] == 'f':
            if isinstance(v, Ptr) : raise Unsupported('write through box wrapper field')
            f = list(v.f) if isinstance(v, Agg) else []
            while len(f) <= s[1]: f.append(None)
            f[s[1]] = self.upd(f[s[1]], rest, val, g); return Agg(f)
        if s[0] == 'v':
            vs = dict(v.vars) if isinstance(v, EnumV) else {}
            vs[s[1]] = self.upd(vs.get(s[1]), rest, val, g)
            return EnumV(v.tag if isinstance(v, EnumV) else BV(0), vs)
        if s[0] == 'k': return v.with_slot(s[1], self.upd(v.slot(s[1]), rest, val, g))
        raise Unsupported(f'upd step {s}')

    def write(self, pl, val, g):
        root, path = pl
        if root is URLTAB: raise Unsupported('write to url table')
        root.val = self.upd(root.val, path, val, g)

    def load(self, ptr):
        """read through a guarded pointer"""
        assert isinstance(ptr, Ptr), ptr
        v = None
        for c, pl in ptr.targets:
            x = self.read(pl)
            v = x if v is None else ite(c, x, v)
        return v

    def store(self, ptr, val, g):
        for c, pl in ptr.targets: self.write(pl, val, AND(g, c))

    # ---- places
    def type_of(self, pe, fr):
        k = pe[0]
        if k == 'local': return fr.fn.types.get(pe[1], '')
        if k == 'field': return pe[3]
        if k == 'downcast': return self.type_of(pe[1], fr)
        if k == 'deref':
            t = self.type_of(pe[1], fr).strip()
            t = re.sub(r"^&('\w+ )?(mut )?", '', t)
            t = re.sub(r'^\*(const|mut) ', '', t)
            m = re.match(r'(?:std::boxed::)?Box<(.*)>$', t)
            return m.group(1) if m else t
        return ''

    def resolve(self, pe, fr):
        k = pe[0]
        if k == 'local': return [(TRUE, (fr.root(pe[1]), ()))]
        if k == 'field': return [(c, (r, p + (('f', pe[2]),))) for c, (r, p) in self.resolve(pe[1], fr)]
        if k == 'downcast':
            head = type_head(self.type_of(pe[1], fr))
            if head not in ENUMS: raise Unsupported(f'downcast on unknown enum {head!r} ({self.type_of(pe[1], fr)!r})')
            idx = ENUMS[head].index(pe[2])
            return [(c, (r, p + (('v', idx),))) for c, (r, p) in self.resolve(pe[1], fr)]
        if k == 'deref':
            out = []
            for c, pl in self.resolve(pe[1], fr):
                v = self.read(pl)
                if not isinstance(v, Ptr): raise Unsupported(f'deref of non-pointer {v!r} at {pe}')
                for c2, pl2 in v.targets: out.append((AND(c, c2), pl2))
            return out
        raise Unsupported(f'place {pe}')

    def read_place(self, pe, fr):
        v = None
        for c, pl in self.resolve(pe, fr):
            x = self.read(pl)
            v = x if v is None else ite(c, x, v)
        return v

    def write_place(self, pe, val, g, fr):
        for c, pl in self.resolve(pe, fr): self.write(pl, val, AND(g, c))

    # ---- operands / rvalues
    def const(self, c, fr):
        if c in ('true', 'false'): return z3.BoolVal(c == 'true')
        m = re.fullmatch(r'(-?\d+)_(usize|isize|u8|u16|u32|u64|i8|i16|i32|i64)', c)
        if m: return BV(int(m.group(1)))
        if c == '()': return UNIT
        m = re.match(r'ZeroSized: \{closure@(.*)\}$', c)
        if m: return ClosureV(m.group(1), Agg([]))
        if c.startswith('"'): return StrV(c[1:-1])
        if 'promoted[' in c:
            name = re.sub(r'^<(.*) as .*>::', '', c)  # best effort
            cands = [n for n in self.fn_text if n.endswith(c.split('::')[-1]) and (c.split('::')[-2] in n)]
            if len(cands) >= 1:
                v = self.call(cands[0], [], TRUE)
                return v
            raise Unsupported('promoted ' + c)
        last = c.split('::')[-1]
        if last in self.consts:
            return self.const(self.consts[last][1], fr)
        return Opaque('const ' + c)

    def operand(self, op, fr):
        if op[0] in ('copy', 'move'): return self.read_place(op[1], fr)
        return self.const(op[1], fr)

    def rvalue(self, rv, fr, g, dest_ty=''):
        k = rv[0]
        if k == 'use': return self.operand(rv[1], fr)
        if k == 'ref': return Ptr([(c, pl) for c, pl in self.resolve(rv[2], fr)])
        if k == 'discr':
            v = self.read_place(rv[1], fr)
            if not isinstance(v, EnumV): raise Unsupported(f'discriminant of {v!r}')
            return v.tag
        if k == 'binop':
            a, b = self.operand(rv[2], fr), self.operand(rv[3], fr)
            op = rv[1]
            if op == 'Eq': return a == b
            if op == 'Ne': return a != b
            if op == 'Ge': return z3.UGE(a, b)
            if op == 'Gt': return z3.UGT(a, b)
            if op == 'Le': return z3.ULE(a, b)
            if op == 'Lt': return z3.ULT(a, b)
            if op == 'Add': return a + b
            if op == 'Sub': return a - b
            if op == 'BitOr': return OR(a, b) if z3.is_bool(a) else a | b
            if op == 'BitAnd': return AND(a, b) if z3.is_bool(a) else a & b
            raise Unsupported('binop ' + op)
        if k == 'unop':
            a = self.operand(rv[2], fr)
            if rv[1] == 'Not': return NOT(a) if z3.is_bool(a) else ~a
            raise Unsupported('unop ' + rv[1])
        if k == 'cast':
            v = self.operand(rv[1], fr)
            if rv[3].startswith(('Transmute', 'PtrToPtr', 'PointerCoercion')): return v
            raise Unsupported('cast ' + rv[3])
        if k == 'tuple': return Agg([self.operand(o, fr) for o in rv[1]])
        if k in ('agg', 'aggn'):
            path = rv[1]
            ops = [self.operand(o if k == 'agg' else o[1], fr) for o in rv[2]]
            if path.startswith('{closure@'): return ClosureV(path[len('{closure@'):-1], Agg(ops))
            segs = strip_generics(path).split('::')
            segs = [s for s in segs if s]
            if len(segs) >= 2 and segs[-2] in ENUMS and segs[-1] in ENUMS[segs[-2]]:
                idx = ENUMS[segs[-2]].index(segs[-1])
                return EnumV(idx, {idx: Agg(ops)})
            if len(segs) == 1 and type_head(dest_ty) in ENUMS and segs[0] in ENUMS[type_head(dest_ty)]:
                idx = ENUMS[type_head(dest_ty)].index(segs[0])
                return EnumV(idx, {idx: Agg(ops)})
            if len(segs) >= 2 and segs[-2] in ('Level', 'LevelFilter'): return Opaque('log level')
            return Agg(ops)
        raise Unsupported(f'rvalue {rv}')

    # ---- function execution (layered unrolling, guarded single store)
    def call(self, fname, args, guard):
        self.stats['calls'] += 1
        fn = self.get_fn(fname)
        fr = Frame(fn)
        for i, a in enumerate(args): fr.root(i + 1).val = a
        succ = {}
        for b, (st, term) in fn.blocks.items():
            t = term[0]
            if t == 'goto': succ[b] = [term[1]]
            elif t == 'switch': succ[b] = [x for _, x in term[2]]
            elif t == 'drop': succ[b] = [term[2]]
            elif t == 'assert': succ[b] = [term[4]]
            elif t == 'call': succ[b] = [term[4]] if term[4] is not None else []
            else: succ[b] = []
        color, back, post = {}, set(), []
        stack = [(0, iter(succ[0]))]; color[0] = 1
        while stack:
            u, it = stack[-1]
            adv = False
            for v in it:
                if color.get(v) == 1: back.add((u, v))
                elif v not in color:
                    color[v] = 1; stack.append((v, iter(succ[v]))); adv = True; break
            if not adv: color[u] = 2; post.append(u); stack.pop()
        rpo = post[::-1]
        guards = {(0, 0): guard}
        for layer in range(self.unroll + 1):
            for b in rpo:
                g = guards.pop((b, layer), None)
                if g is None or z3.is_false(g): continue
                self.stats['blocks'] += 1
                for tgt, eg in self.exec_block(fr, b, g):
                    if z3.is_false(eg): continue
                    l2 = layer + 1 if (b, tgt) in back else layer
                    if l2 > self.unroll: self.exceeded.append((fname, eg)); continue
                    key = (tgt, l2)
                    guards[key] = OR(guards[key], eg) if key in guards else eg
        return fr.root(0).val if 0 in fr.roots else UNIT

    def exec_block(self, fr, b, g):
        stmts, term = fr.fn.blocks[b]
        for s in stmts:
            if s[0] == 'nop': continue
            if s[0] == 'assign':
                try: self.write_place(s[1], self.rvalue(s[2], fr, g, self.type_of(s[1], fr)), g, fr)
                except Unsupported as e: raise Unsupported(f'{e} @ {fr.fn.name} bb{b}: {s}')
            else: raise Unsupported(f'stmt {s}')
        t = term[0]
        if t == 'goto': return [(term[1], g)]
        if t in ('return', 'unreachable'): return []
        if t == 'drop': return [(term[2], g)]
        if t == 'assert':
            v = self.operand(term[2], fr)
            ok = NOT(v) if term[1] else v
            self.failed_asserts.append((fr.fn.name, AND(g, NOT(ok))))
            return [(term[4], AND(g, ok))]
        if t == 'switch':
            v = self.operand(term[1], fr)
            outs, rest = [], TRUE
            for k, tgt in term[2]:
                if k == 'otherwise': outs.append((tgt, AND(g, rest)))
                else:
                    if z3.is_bool(v): c = v if int(k) != 0 else NOT(v)
                    else:
                        c = v == BV(int(k))
                        if z3.is_bv_value(v): c = z3.BoolVal(v.as_long() == int(k) % (1 << W))
                    outs.append((tgt, AND(g, c))); rest = AND(rest, NOT(c))
            return outs
        if t == 'call':
            argv = [self.operand(o, fr) for o in term[3]]
            val = self.dispatch(term[2], argv, g, fr)
            self.write_place(term[1], val, g, fr)
            return [(term[4], g)] if term[4] is not None else []
        raise Unsupported(f'terminator {term}')

    # ---- call dispatch
    def dispatch(self, callee, argv, g, fr):
        from models import MODELS
        for pat, fnm in MODELS:
            if pat.fullmatch(callee): return fnm(self, callee, argv, g)
        c = strip_generics(callee)
        m = re.fullmatch(r'<(.+?) as (.+?)>::(\w+)', c)
        if m:
            key = (m.group(1).split('::')[-1].replace('&', '').strip(), m.group(3))
        else:
            segs = [s for s in c.split('::') if s]
            key = (segs[-2], segs[-1]) if len(segs) >= 2 else (None, segs[-1])
        if key in self.index: return self.call(self.index[key], argv, g)
        if (None, key[1]) in self.index and key[0] is None: return self.call(self.index[(None, key[1])], argv, g)
        raise Unsupported('no model / definition for callee: ' + callee)

    def call_closure(self, cv, args, g, by_ref=True):
        name = self.find_closure_fn(cv.span)
        fn = self.get_fn(name)
        p1 = fn.params.split(', _2')[0]
        if re.match(r'_1: &', p1):
            envroot = Root(cv.env, 'closure-env'); first = Ptr([(TRUE, (envroot, ()))])
        else: first = cv.env
        return self.call(name, [first] + list(args), g)
