use deno_graph::source::MemoryLoader;
use deno_graph::source::Source;
use deno_graph::*;
use url::Url;

fn u(s: &str) -> Url { Url::parse(s).unwrap() }

async fn build(sources: Vec<(String, Source<String, String>)>, roots: Vec<Url>) -> ModuleGraph {
  let loader = MemoryLoader::new(sources, vec![]);
  let mut graph = ModuleGraph::new(GraphKind::All);
  graph.build(roots, Default::default(), &loader, Default::default()).await;
  graph
}

#[tokio::test]
async fn probe_cycle() {
  let g = build(vec![
    ("https://x/a".to_string(), Source::Redirect("https://x/b".to_string())),
    ("https://x/b".to_string(), Source::Redirect("https://x/a".to_string())),
  ], vec![u("https://x/a")]).await;
  println!("CYCLE redirects={:?}", g.redirects);
  println!("CYCLE json={}", serde_json::to_string(&g).unwrap());
  let ra = g.resolve(&u("https://x/a")).clone();
  let rb = g.resolve(&u("https://x/b")).clone();
  println!("CYCLE resolve(a)={} resolve(b)={} resolve(resolve(a))={}", ra, rb, g.resolve(&ra));
  println!("CYCLE try_get(a)={:?}", g.try_get(&u("https://x/a")).map(|m| m.map(|m| m.specifier().clone())).map_err(|e| e.to_string()));
  println!("CYCLE valid={:?}", g.valid().map_err(|e| e.to_string()));
  for (s, e) in g.walk(g.roots.iter(), WalkOptions { check_js: CheckJsOption::True, follow_dynamic: false, kind: GraphKind::All, prefer_fast_check_graph: false }) {
    println!("CYCLE walk {} -> {}", s, match e { ModuleEntryRef::Module(_) => "module".to_string(), ModuleEntryRef::Err(e) => format!("err {}", e), ModuleEntryRef::Redirect(t) => format!("redirect {}", t) });
  }
}

async fn chain(n: usize) {
  let mut sources = vec![];
  for i in 0..n {
    sources.push((format!("https://x/s{}", i), Source::Redirect(format!("https://x/s{}", i + 1))));
  }
  sources.push((format!("https://x/s{}", n), Source::Module { specifier: format!("https://x/s{}", n), maybe_headers: Some(vec![("content-type".to_string(), "application/typescript".to_string())]), content: "export const a = 1;".to_string() }));
  let g = build(sources, vec![u("https://x/s0")]).await;
  let s0 = u("https://x/s0");
  println!("CHAIN{} nredirects={} resolve(s0)={} get(s0)={:?} contains={} try_get={:?} valid={:?}", n, g.redirects.len(), g.resolve(&s0), g.get(&s0).map(|m| m.specifier().to_string()), g.contains(&s0), g.try_get(&s0).map(|m| m.map(|m| m.specifier().to_string())).map_err(|e| e.to_string()), g.valid().map_err(|e| e.to_string()));
  let r1 = g.resolve(&s0).clone();
  println!("CHAIN{} resolve(resolve(s0))={}", n, g.resolve(&r1));
  let listed: Vec<String> = g.specifiers().map(|(s, r)| format!("{}:{}", s.path(), r.is_ok())).collect();
  println!("CHAIN{} specifiers={:?}", n, listed);
  let walked: Vec<String> = g.walk(g.roots.iter(), WalkOptions { check_js: CheckJsOption::True, follow_dynamic: false, kind: GraphKind::All, prefer_fast_check_graph: false }).map(|(s, _)| s.path().to_string()).collect();
  println!("CHAIN{} walk={:?}", n, walked);
  println!("CHAIN{} errors={:?}", n, g.module_errors().map(|e| e.to_string()).collect::<Vec<_>>());
}

#[tokio::test]
async fn probe_chains() {
  for n in [1usize, 2, 3, 9, 10, 11] { chain(n).await; }
}

#[tokio::test]
async fn probe_missing_root_follow_dynamic() {
  let g = build(vec![], vec![u("https://x/missing")]).await;
  for fd in [false, true] {
    let r = g.walk(g.roots.iter(), WalkOptions { check_js: CheckJsOption::True, follow_dynamic: fd, kind: GraphKind::CodeOnly, prefer_fast_check_graph: false }).validate();
    println!("MISSINGROOT follow_dynamic={} validate={:?}", fd, r.map_err(|e| e.to_string()));
  }
  // missing behind a redirect
  let g = build(vec![("https://x/a".to_string(), Source::Redirect("https://x/gone".to_string()))], vec![u("https://x/a")]).await;
  for fd in [false, true] {
    let r = g.walk(g.roots.iter(), WalkOptions { check_js: CheckJsOption::True, follow_dynamic: fd, kind: GraphKind::CodeOnly, prefer_fast_check_graph: false }).validate();
    println!("MISSINGREDIR follow_dynamic={} validate={:?} json={}", fd, r.map_err(|e| e.to_string()), serde_json::to_string(&g).unwrap());
  }
}
