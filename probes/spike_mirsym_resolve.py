#!/usr/bin/env python3
"""Spike: symbolic execution of rustc MIR text (guarded single-store, layered unrolling) with z3.
Only enough to run ModuleGraph::resolve."""
import re, sys, time
import z3

# ---------------------------------------------------------------- MIR parsing
def split_functions(txt):
    fns = {}
    for part in re.split(r'\n(?=(?:fn|const|static) )', txt):
        m = re.match(r'fn (.+?)\((.*?)\) -> (.+?) \{\n', part, re.S)
        if m:
            fns[m.group(1)] = part
    return fns

class Fn:
    def __init__(self, name, text):
        self.name = name
        self.blocks = {}
        self.cleanup = set()
        hdr = re.match(r'fn (.+?)\((.*?)\) -> (.+?) \{\n', text, re.S)
        self.nargs = len(re.findall(r'_\d+: ', hdr.group(2)))
        for m in re.finditer(r'^    bb(\d+)( \(cleanup\))?: \{\n(.*?)^    \}', text, re.S | re.M):
            n = int(m.group(1))
            lines = [l.strip() for l in m.group(3).strip().split('\n')]
            if m.group(2):
                self.cleanup.add(n)
            self.blocks[n] = (lines[:-1], lines[-1])

def term_targets(term):
    """successor blocks (ignoring unwind)"""
    t = term
    m = re.match(r'goto -> bb(\d+);', t)
    if m: return [int(m.group(1))]
    m = re.match(r'switchInt\((.*)\) -> \[(.*)\];', t)
    if m:
        return [int(x) for x in re.findall(r'bb(\d+)', m.group(2))]
    m = re.search(r'-> \[return: bb(\d+)', t)
    if m: return [int(m.group(1))]
    m = re.match(r'drop\(.*\) -> \[return: bb(\d+)', t)
    if m: return [int(m.group(1))]
    return []

# ---------------------------------------------------------------- values
class Ptr:
    """guarded set of places. place = (frame, local, proj...) or ('uref', idterm)"""
    def __init__(self, targets): self.targets = targets
class Enum:
    def __init__(self, tag, payload): self.tag, self.payload = tag, payload  # payload: {variant_index: [vals]}
class URef:
    def __init__(self, id): self.id = id

BV = lambda v, w=16: z3.BitVecVal(v, w)
def AND(*xs):
    ys = []
    for x in xs:
        if z3.is_false(x): return z3.BoolVal(False)
        if not z3.is_true(x): ys.append(x)
    return z3.And(ys) if len(ys) > 1 else (ys[0] if ys else z3.BoolVal(True))
def NOT(x):
    if z3.is_true(x): return z3.BoolVal(False)
    if z3.is_false(x): return z3.BoolVal(True)
    return z3.Not(x)

def ite(g, a, b):
    if b is None: return a
    if a is None: return b
    if isinstance(a, URef) and isinstance(b, URef): return URef(z3.If(g, a.id, b.id))
    if isinstance(a, Enum) and isinstance(b, Enum):
        pl = {}
        for k in set(a.payload) | set(b.payload):
            x, y = a.payload.get(k), b.payload.get(k)
            if x is None: pl[k] = y
            elif y is None: pl[k] = x
            else: pl[k] = [ite(g, p, q) for p, q in zip(x, y)]
        return Enum(z3.If(g, a.tag, b.tag), pl)
    if isinstance(a, Ptr) and isinstance(b, Ptr):
        acc = {}
        for c, p in [(z3.And(g, c), p) for c, p in a.targets] + [(z3.And(z3.Not(g), c), p) for c, p in b.targets]:
            k = (p[0], id(p[1]), p[2]) if isinstance(p, tuple) else id(p)
            if k in acc: acc[k] = (z3.Or(acc[k][0], c), p)
            else: acc[k] = (c, p)
        return Ptr(list(acc.values()))
    if isinstance(a, (SetU, MapUU, Graph)) or isinstance(b, (SetU, MapUU, Graph)):
        assert a is b, "model objects merge only with themselves"
        return a
    if isinstance(a, tuple) and isinstance(b, tuple):
        return tuple(ite(g, p, q) for p, q in zip(a, b))
    if isinstance(a, bool): a = z3.BoolVal(a)
    if isinstance(b, bool): b = z3.BoolVal(b)
    if isinstance(a, str) or isinstance(b, str): return a
    if a.eq(b): return a
    return z3.If(g, a, b)

# ---------------------------------------------------------------- models
class MapUU:
    """BTreeMap<Url,Url> over N url ids"""
    def __init__(self, N, name):
        self.N = N
        self.present = [z3.Bool(f'{name}_p{i}') for i in range(N)]
        self.target = [z3.BitVec(f'{name}_t{i}', 8) for i in range(N)]
    def get(self, kid):
        tag = BV(0); tgt = z3.BitVecVal(0, 8)
        for i in range(self.N):
            hit = kid == i
            tag = z3.If(z3.And(hit, self.present[i]), BV(1), tag)
            tgt = z3.If(hit, self.target[i], tgt)
        return Enum(tag, {1: [URef(tgt)], 0: []})
class SetU:
    def __init__(self, N):
        self.N = N; self.mem = [z3.BoolVal(False)] * N; self.count = BV(0)
    def insert(self, g, kid):
        was = z3.BoolVal(False)
        new = []
        for i in range(self.N):
            hit = kid == i
            was = z3.If(hit, self.mem[i], was)
            new.append(z3.If(z3.And(g, hit), z3.BoolVal(True), self.mem[i]))
        self.mem = new
        self.count = z3.If(z3.And(g, z3.Not(was)), self.count + 1, self.count)
        return z3.Not(was)
    def len(self):
        return self.count
class Graph:
    def __init__(self, N): self.redirects = MapUU(N, 'red')

# ---------------------------------------------------------------- engine
class Engine:
    def __init__(self, fns, N, unroll):
        self.fns = {k: Fn(k, v) for k, v in fns.items()}
        self.N, self.unroll = N, unroll
        self.exceeded = []
        self.frames = 0
        self.consts = {'graph::ModuleGraph::resolve::MAX_REDIRECTS': BV(10)}

    def deref_uref(self, v, store):
        """value of kind &Url -> id term"""
        if isinstance(v, URef): return v.id
        raise Exception(f'cannot deref {v}')

    def call(self, fname, args, guard):
        fn = self.fns[fname]
        store = {i + 1: a for i, a in enumerate(args)}
        # back edges by DFS
        succ = {b: [t for t in term_targets(term) if t not in fn.cleanup] for b, (st, term) in fn.blocks.items() if b not in fn.cleanup}
        color, back, post = {}, set(), []
        def dfs(u):
            color[u] = 1
            for v in succ[u]:
                if color.get(v) == 1: back.add((u, v))
                elif v not in color: dfs(v)
            color[u] = 2; post.append(u)
        dfs(0)
        rpo = post[::-1]
        guards = {(0, 0): guard}
        for layer in range(self.unroll + 1):
            for b in rpo:
                g = guards.pop((b, layer), None)
                if g is None: continue
                pass
                if z3.is_false(g): continue
                outs = self.exec_block(fn, b, g, store)
                for tgt, eg in outs:
                    l2 = layer + 1 if (b, tgt) in back else layer
                    if l2 > self.unroll:
                        self.exceeded.append(eg); continue
                    key = (tgt, l2)
                    guards[key] = z3.Or(guards[key], eg) if key in guards else eg
        return store.get(0)

    # places -------------------------------------------------------------
    def read_place(self, expr, store):
        expr = expr.strip()
        m = re.fullmatch(r'_(\d+)', expr)
        if m: return store[int(m.group(1))]
        m = re.fullmatch(r'\(\(\*_(\d+)\)\.(\d+): .*\)', expr)
        if m:
            base = store[int(m.group(1))]
            assert isinstance(base, Ptr) and len(base.targets) == 1
            obj = base.targets[0][1]
            if isinstance(obj, Graph) and m.group(2) == '4': return obj.redirects
        m = re.fullmatch(r'\(\(_(\d+) as (\w+)\)\.(\d+): .*\)', expr)
        if m:
            e = store[int(m.group(1))]
            idx = {'Some': 1, 'None': 0}[m.group(2)]
            return e.payload[idx][int(m.group(3))]
        raise Exception('read_place: ' + expr)

    def operand(self, op, store):
        op = op.strip()
        m = re.match(r'(copy|move) (.*)', op)
        if m: return self.read_place(m.group(2), store)
        m = re.match(r'const (.*)', op)
        if m:
            c = m.group(1)
            if c in self.consts: return self.consts[c]
            mm = re.fullmatch(r'(\d+)_usize', c)
            if mm: return BV(int(mm.group(1)))
        raise Exception('operand: ' + op)

    def write(self, n, val, g, store):
        old = store.get(n)
        store[n] = val if old is None else ite(g, val, old)

    def exec_block(self, fn, b, g, store):
        stmts, term = fn.blocks[b]
        for s in stmts:
            m = re.match(r'_(\d+) = (.*);', s)
            if not m: raise Exception('stmt: ' + s)
            dst, rv = int(m.group(1)), m.group(2)
            mm = re.fullmatch(r'&(mut )?(.*)', rv)
            if mm:
                inner = mm.group(2)
                loc = re.fullmatch(r'_(\d+)', inner)
                if loc: val = Ptr([(z3.BoolVal(True), ('local', store, int(loc.group(1))))])
                else: val = Ptr([(z3.BoolVal(True), self.read_place(inner, store))])
            elif rv.startswith('discriminant('):
                val = self.read_place(rv[len('discriminant('):-1], store).tag
            elif re.match(r'Ge\(', rv):
                a, bb = rv[3:-1].split(', ')
                val = z3.UGE(self.operand(a, store), self.operand(bb, store))
            elif rv.startswith('log::Level::') or rv.startswith('const log::') or 'promoted[' in rv:
                val = 'opaque'
            else:
                val = self.operand(rv, store)
            self.write(dst, val, g, store)
        # terminator
        m = re.match(r'goto -> bb(\d+);', term)
        if m: return [(int(m.group(1)), g)]
        if term in ('return;', 'unreachable;'): return []
        m = re.match(r'drop\(.*\) -> \[return: bb(\d+)', term)
        if m: return [(int(m.group(1)), g)]
        m = re.match(r'switchInt\((.*)\) -> \[(.*)\];', term)
        if m:
            v = self.operand(m.group(1), store)
            outs, rest = [], z3.BoolVal(True)
            for case in m.group(2).split(', '):
                k, t = case.split(': ')
                t = int(t[2:])
                if k == 'otherwise':
                    outs.append((t, AND(g, rest)))
                else:
                    if z3.is_bool(v): c = (v if int(k) != 0 else NOT(v))
                    else: c = v == int(k)
                    outs.append((t, AND(g, c))); rest = AND(rest, NOT(c))
            return outs
        m = re.match(r'_(\d+) = (.+?)\((.*)\) -> \[return: bb(\d+)', term)
        if m:
            dst, f, args, ret = int(m.group(1)), m.group(2), m.group(3), int(m.group(4))
            argv = [self.operand(a, store) for a in self.split_args(args)]
            val = self.model(f, argv, g, store)
            self.write(dst, val, g, store)
            return [(ret, g)]
        raise Exception('term: ' + term)

    def split_args(self, s):
        out, depth, cur = [], 0, ''
        for ch in s:
            if ch in '([<': depth += 1
            if ch in ')]>': depth -= 1
            if ch == ',' and depth == 0: out.append(cur); cur = ''
            else: cur += ch
        if cur.strip(): out.append(cur)
        return out

    def obj_of(self, p):
        assert isinstance(p, Ptr) and len(p.targets) == 1
        t = p.targets[0][1]
        if isinstance(t, tuple) and t[0] == 'local': return t[1][t[2]]
        return t

    def model(self, f, argv, g, store):
        if f == 'BTreeMap::<Url, Url>::get::<Url>':
            return self.obj_of(argv[0]).get(self.deref_uref(argv[1], store))
        if f == 'HashSet::<&Url>::with_capacity': return SetU(self.N)
        if f == 'HashSet::<&Url>::insert':
            return self.obj_of(argv[0]).insert(g, self.deref_uref(argv[1], store))
        if f == 'HashSet::<&Url>::len': return self.obj_of(argv[0]).len()
        if f == '<Level as PartialOrd<LevelFilter>>::le': return z3.BoolVal(False)  # logging off
        raise Exception('no model for ' + f)

if __name__ == '__main__':
    N = int(sys.argv[1]); unroll = int(sys.argv[2])
    t0 = time.time()
    fns = split_functions(open('' + (sys.argv[3] if len(sys.argv) > 3 else '/tmp/probe/mir_nodefault.txt') + '').read())
    R = 'graph::<impl at src/graph.rs:2216:1: 2216:17>::resolve'
    eng = Engine({R: fns[R]}, N, unroll)
    G = Graph(N)
    x = z3.BitVec('x', 8)
    s = z3.Solver()
    s.add(z3.ULT(x, N))
    for i in range(N):
        s.add(z3.ULT(G.redirects.target[i], N))
        s.add(G.redirects.target[i] != i)  # builder never records a self redirect (debug_assert_ne)
    rank = [z3.BitVec(f'rk{i}', 8) for i in range(N)]
    for i in range(N):
        for j in range(N):
            s.add(z3.Implies(z3.And(G.redirects.present[i], G.redirects.target[i] == j), z3.UGT(rank[j], rank[i])))
    gp = Ptr([(z3.BoolVal(True), G)])
    r1 = eng.call(R, [gp, URef(x)], z3.BoolVal(True))
    r2 = eng.call(R, [gp, r1], z3.BoolVal(True))
    print('encode', round(time.time() - t0, 2), 's; exceeded guards', len(eng.exceeded))
    # unwinding assertion
    s.push(); s.add(z3.Or(eng.exceeded) if eng.exceeded else z3.BoolVal(False))
    print('unwind-exceeded reachable:', s.check()); s.pop()
    s.push(); s.add(r1.id != r2.id)
    t1 = time.time(); res = s.check(); print('idempotence violated:', res, round(time.time() - t1, 2), 's')
    if res == z3.sat:
        m = s.model()
        print(' x =', m[x], [(i, m.eval(G.redirects.present[i]), m.eval(G.redirects.target[i])) for i in range(N)], ' r1=', m.eval(r1.id), ' r2=', m.eval(r2.id))
    s.pop()
    # vacuity witness: some chain of length >= 3 resolved
    s.push(); s.add(r1.id != x, r1.id != eng.obj_of(gp).redirects.get(x).payload[1][0].id); print('witness (>=2 hops):', s.check()); s.pop()
