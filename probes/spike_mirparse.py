#!/usr/bin/env python3
"""Parse coverage probe: can a small grammar cover the MIR of the target functions?"""
import re, sys, collections

def split_functions(txt):
    fns = {}
    for part in re.split(r'\n(?=(?:fn|const|static) )', txt):
        m = re.match(r'fn (.+?)\((.*?)\) -> (.+?) \{\n', part, re.S)
        if m: fns[m.group(1)] = part
    return fns

class P:
    def __init__(self, s): self.s, self.i = s, 0
    def peek(self, n=1): return self.s[self.i:self.i+n]
    def eat(self, t):
        if self.s.startswith(t, self.i): self.i += len(t); return True
        return False
    def expect(self, t):
        if not self.eat(t): raise SyntaxError(f'expected {t!r} at {self.s[self.i:self.i+40]!r} in {self.s!r}')
    def ws(self):
        while self.peek() == ' ': self.i += 1
    def balanced_until(self, stops):
        """consume text until one of stop chars at depth 0"""
        depth, j = 0, self.i
        while j < len(self.s):
            c = self.s[j]
            if c in '([{<': depth += 1
            elif c in ')]}>':
                if depth == 0 and c in stops: break
                if c == '>' and self.s[j-1] == '-': pass  # ->
                else: depth -= 1
            elif depth == 0 and c in stops: break
            j += 1
        r = self.s[self.i:j]; self.i = j; return r

def parse_place(p):
    p.ws()
    if p.eat('('):
        if p.eat('*'):
            inner = parse_place(p); p.expect(')'); base = ('deref', inner)
        else:
            inner = parse_place(p)
            p.ws()
            if p.eat('as '):
                m = re.match(r'[A-Za-z_][A-Za-z0-9_#]*', p.s[p.i:]); name = m.group(0); p.i += len(name); p.expect(')')
                base = ('downcast', inner, name)
            elif p.eat('.'):
                m = re.match(r'\d+', p.s[p.i:]); n = int(m.group(0)); p.i += len(m.group(0)); p.expect(': ')
                ty = p.balanced_until(')'); p.expect(')')
                base = ('field', inner, n, ty)
            else: raise SyntaxError('place paren: ' + p.s[p.i:])
    else:
        m = re.match(r'_(\d+)', p.s[p.i:])
        if not m: raise SyntaxError('place: ' + p.s[p.i:])
        p.i += len(m.group(0)); base = ('local', int(m.group(1)))
    while p.peek() == '[':
        p.i += 1; idx = p.balanced_until(']'); p.expect(']'); base = ('index', base, idx)
    return base

def parse_operand(p):
    p.ws()
    if p.eat('copy '): return ('copy', parse_place(p))
    if p.eat('move '): return ('move', parse_place(p))
    if p.eat('const '):
        return ('const', p.balanced_until(',)]'))
    raise SyntaxError('operand: ' + p.s[p.i:])

BINOPS = ['Eq','Ne','Lt','Le','Gt','Ge','Add','Sub','Mul','Div','Rem','BitAnd','BitOr','BitXor','Shl','Shr','AddWithOverflow','SubWithOverflow','MulWithOverflow','Offset','Cmp','AddUnchecked','SubUnchecked','MulUnchecked','ShlUnchecked','ShrUnchecked']
UNOPS = ['Not','Neg','PtrMetadata']

def parse_rvalue(s):
    p = P(s)
    for pre in ('&raw const ', '&raw mut ', '&mut ', '&fake shallow ', '&'):
        if p.eat(pre):
            pl = parse_place(p); assert p.i == len(s), s; return ('ref', pre.strip(), pl)
    if p.eat('discriminant('):
        pl = parse_place(p); p.expect(')'); return ('discr', pl)
    m = re.match(r'([A-Za-z]+)\(', s)
    if m and m.group(1) in BINOPS:
        p.i = len(m.group(0)); a = parse_operand(p); p.expect(', '); b = parse_operand(p); p.expect(')'); return ('binop', m.group(1), a, b)
    if m and m.group(1) in UNOPS:
        p.i = len(m.group(0)); a = parse_operand(p); p.expect(')'); return ('unop', m.group(1), a)
    if s.startswith(('copy ', 'move ', 'const ')):
        op = parse_operand(p)
        if p.i == len(s): return ('use', op)
        p.ws()
        if p.eat('as '):
            rest = s[p.i:]; mm = re.match(r'(.*) \((\w+(?:\(.*\))?)\)$', rest)
            return ('cast', op, mm.group(1), mm.group(2))
        raise SyntaxError('use tail: ' + s[p.i:])
    if s.startswith('('):  # tuple
        p.i = 1; items = []
        while not p.eat(')'):
            items.append(parse_operand(p)); p.eat(', ') or p.eat(',')
        assert p.i == len(s), s; return ('tuple', items)
    if s.startswith('['):
        p.i = 1; items = []
        while not p.eat(']'):
            items.append(parse_operand(p))
            if p.eat('; '): n = p.balanced_until(']'); p.expect(']'); return ('repeat', items[0], n)
            p.eat(', ')
        return ('array', items)
    # aggregate: Path(args) | Path { f: v, .. } | Path (unit)
    m = re.match(r'(.+?)( \{ | \{\}|\(|$)', s)
    depth = 0; j = 0
    while j < len(s):
        c = s[j]
        if c in '<[': depth += 1
        elif c in '>]' and s[j-1] != '-': depth -= 1
        elif depth == 0 and (c == '(' or s.startswith(' { ', j) or s.startswith(' {}', j)): break
        elif c == '{' and s.startswith('{closure', j):
            k = s.index('}', j); j = k
        j += 1
    path = s[:j]
    if j == len(s): return ('agg', path, [])
    if s[j] == '(':
        p.i = j + 1; items = []
        while not p.eat(')'):
            items.append(parse_operand(p)); p.eat(', ')
        assert p.i == len(s), s; return ('agg', path, items)
    p.i = j + 3 if s.startswith(' { ', j) else j + 3
    items = []
    if s.startswith(' {}', j): return ('agg', path, [])
    while not p.eat('}'):
        mm = re.match(r'(\w+): ', s[p.i:]); p.i += len(mm.group(0)); items.append((mm.group(1), parse_operand(p))); p.eat(', ') or p.eat(' ')
    return ('aggn', path, items)

def parse_stmt(s):
    if s in ('nop;',) or s.startswith(('StorageLive(', 'StorageDead(', 'FakeRead(', 'PlaceMention(', 'AscribeUserType(', 'Retag(', 'Coverage::', 'ConstEvalCounter', 'BackwardIncompatibleDropHint')): return ('nop',)
    m = re.match(r'discriminant\((.*)\) = (\d+);$', s)
    if m: return ('setdiscr', parse_place(P(m.group(1))), int(m.group(2)))
    m = re.match(r'Deinit\((.*)\);$', s)
    if m: return ('nop',)
    assert s.endswith(';'), s
    p = P(s[:-1]); pl = parse_place(p); p.expect(' = ')
    return ('assign', pl, parse_rvalue(p.s[p.i:]))

def parse_term(s):
    if s in ('return;', 'unreachable;', 'resume;', 'terminate(cleanup);', 'terminate(abi);'): return (s[:-1],)
    m = re.match(r'goto -> bb(\d+);$', s)
    if m: return ('goto', int(m.group(1)))
    m = re.match(r'switchInt\((.*)\) -> \[(.*)\];$', s)
    if m: return ('switch', parse_operand(P(m.group(1))), [(k, int(t[2:])) for k, t in (c.split(': ') for c in m.group(2).split(', '))])
    m = re.match(r'drop\((.*)\) -> \[return: bb(\d+), unwind[: ](.*)\];$', s)
    if m: return ('drop', parse_place(P(m.group(1))), int(m.group(2)))
    m = re.match(r'assert\((.*), "(.*)\) -> \[success: bb(\d+), unwind', s)
    if m: return ('assert', m.group(1), int(m.group(3)))
    m = re.match(r'(.*?) = (.*) -> \[return: bb(\d+), unwind', s)
    if m:
        dst = parse_place(P(m.group(1))); call = m.group(2)
        # split callee(args): last top-level paren group
        depth = 0
        for j in range(len(call) - 1, -1, -1):
            c = call[j]
            if c == ')': depth += 1
            elif c == '(':
                depth -= 1
                if depth == 0: break
        callee, args = call[:j], call[j+1:-1]
        p = P(args); ops = []
        while p.i < len(args):
            ops.append(parse_operand(p)); p.eat(', ')
        return ('call', dst, callee, ops, int(m.group(3)))
    m = re.match(r'(.*?) = (.*) -> unwind', s)
    if m: return ('call_noreturn', m.group(2))
    raise SyntaxError('term: ' + s)

if __name__ == '__main__':
    txt = open(sys.argv[1]).read()
    fns = split_functions(txt)
    pat = re.compile(sys.argv[2]) if len(sys.argv) > 2 else None
    ok = bad = 0; errs = collections.Counter(); kinds = collections.Counter()
    for name, text in fns.items():
        if pat and not pat.search(name): continue
        for m in re.finditer(r'^    bb(\d+)( \(cleanup\))?: \{\n(.*?)^    \}', text, re.S | re.M):
            if m.group(2): continue
            lines = [l.strip() for l in m.group(3).strip().split('\n')]
            for l in lines[:-1]:
                try:
                    r = parse_stmt(l); ok += 1
                    if r[0] == 'assign': kinds[r[2][0] + (':' + r[2][1] if r[2][0] in ('binop', 'unop') else '') + (':' + r[2][3].split('(')[0] if r[2][0] == 'cast' else '')] += 1
                except Exception as e:
                    bad += 1; errs[l[:150]] += 1
            try: r = parse_term(lines[-1]); ok += 1; kinds['T:' + r[0]] += 1
            except Exception as e: bad += 1; errs['T ' + lines[-1][:150]] += 1
    print('parsed', ok, 'failed', bad)
    for k, v in kinds.most_common(): print('  ', v, k)
    for k, v in errs.most_common(40): print('ERR', v, k)
