//! Kani harnesses over the real deno_graph crate (leaf functions over scalars and small byte buffers only;
//! see DESIGN.md: graph-state code is decided by the MIR engine, not by Kani).
#![allow(unused)]

#[cfg(kani)]
mod c20 {
  use deno_graph::ModuleTextSource;
  use deno_media_type::encoding::DecodedArcSourceDetailKind;
  use std::sync::Arc;

  const MAX: usize = 4;

  /// text = arbitrary valid UTF-8 of at most MAX bytes
  fn any_text() -> (Arc<str>, [u8; MAX], usize) {
    let bytes: [u8; MAX] = kani::any();
    let len: usize = kani::any();
    kani::assume(len <= MAX);
    let s = std::str::from_utf8(&bytes[..len]);
    kani::assume(s.is_ok());
    (Arc::from(s.unwrap()), bytes, len)
  }

  /// Decoder contract `Unchanged`: the stored text IS the loader's bytes. The original bytes must come back exactly.
  #[kani::proof]
  #[kani::unwind(6)]
  fn unchanged_returns_exactly_the_loader_bytes() {
    let (text, bytes, len) = any_text();
    let src = ModuleTextSource { text, decoded_kind: DecodedArcSourceDetailKind::Unchanged };
    match src.try_get_original_bytes() {
      None => {}
      Some(out) => {
        assert!(out.len() == len);
        let mut i = 0;
        while i < MAX {
          if i < len { assert!(out[i] == bytes[i]); }
          i += 1;
        }
      }
    }
    kani::cover!(len == MAX, "full-length text reached");
  }

  /// Decoder contract `OnlyUtf8Bom`: loader bytes = EF BB BF ++ text. One harness per text length (the Vec
  /// construction in this branch is only tractable for CBMC with concrete lengths); contents are arbitrary valid UTF-8.
  fn bom_case<const LEN: usize>() {
    let bytes: [u8; LEN] = kani::any();
    // contents: ARBITRARY bytes, a superset of valid UTF-8 (the function under test copies bytes and never
    // inspects them; running the std UTF-8 validator on symbolic bytes is what makes this branch intractable for CBMC)
    let text: Arc<str> = Arc::from(unsafe { std::str::from_utf8_unchecked(&bytes) });
    let src = ModuleTextSource { text, decoded_kind: DecodedArcSourceDetailKind::OnlyUtf8Bom };
    match src.try_get_original_bytes() {
      None => {}
      Some(out) => {
        assert!(out.len() == LEN + 3);
        assert!(out[0] == 0xEF && out[1] == 0xBB && out[2] == 0xBF);
        let mut i = 0;
        while i < LEN {
          assert!(out[3 + i] == bytes[i]);
          i += 1;
        }
        kani::cover!(true, "bytes returned");
      }
    }
  }
  #[kani::proof]
  #[kani::unwind(8)]
  fn only_utf8_bom_len0() { bom_case::<0>() }
  #[kani::proof]
  #[kani::unwind(8)]
  fn only_utf8_bom_len1() { bom_case::<1>() }
  #[kani::proof]
  #[kani::unwind(8)]
  fn only_utf8_bom_len2() { bom_case::<2>() }
  #[kani::proof]
  #[kani::unwind(9)]
  fn only_utf8_bom_len3() { bom_case::<3>() }
  #[kani::proof]
  #[kani::unwind(12)]
  fn only_utf8_bom_len4() { bom_case::<4>() }
  #[kani::proof]
  #[kani::unwind(12)]
  fn only_utf8_bom_len5() { bom_case::<5>() }
  #[kani::proof]
  #[kani::unwind(12)]
  fn only_utf8_bom_len6() { bom_case::<6>() }

  /// thorough: the Unchanged branch for 8 arbitrary bytes
  #[kani::proof]
  #[kani::unwind(10)]
  fn unchanged_len8() {
    let bytes: [u8; 8] = kani::any();
    let text: Arc<str> = Arc::from(unsafe { std::str::from_utf8_unchecked(&bytes) });
    let src = ModuleTextSource { text, decoded_kind: DecodedArcSourceDetailKind::Unchanged };
    if let Some(out) = src.try_get_original_bytes() {
      assert!(out.len() == 8);
      let mut i = 0;
      while i < 8 { assert!(out[i] == bytes[i]); i += 1; }
      kani::cover!(true, "bytes returned");
    }
  }

  /// Decoder contract `Changed`: the text says nothing about the loader's bytes, so nothing may be returned.
  #[kani::proof]
  #[kani::unwind(6)]
  fn changed_returns_nothing() {
    let (text, _bytes, _len) = any_text();
    let src = ModuleTextSource { text, decoded_kind: DecodedArcSourceDetailKind::Changed };
    assert!(src.try_get_original_bytes().is_none());
  }
}

#[cfg(kani)]
mod c08 {
  use deno_graph::{Position, PositionRange};

  #[kani::proof]
  fn position_order_is_lexicographic() {
    let a = Position { line: kani::any(), character: kani::any() };
    let b = Position { line: kani::any(), character: kani::any() };
    let lt = a.line < b.line || (a.line == b.line && a.character < b.character);
    let eq = a.line == b.line && a.character == b.character;
    assert!((a < b) == lt);
    assert!((a == b) == eq);
    assert!((a > b) == (!lt && !eq));
    assert!((a <= b) == (lt || eq));
    kani::cover!(a.line < b.line && a.character > b.character);
  }

  #[kani::proof]
  fn range_includes_is_the_closed_lexicographic_interval() {
    let r = PositionRange {
      start: Position { line: kani::any(), character: kani::any() },
      end: Position { line: kani::any(), character: kani::any() },
    };
    let p = Position { line: kani::any(), character: kani::any() };
    let ge_start = p.line > r.start.line || (p.line == r.start.line && p.character >= r.start.character);
    let le_end = p.line < r.end.line || (p.line == r.end.line && p.character <= r.end.character);
    assert!(r.includes(p) == (ge_start && le_end));
    kani::cover!(r.includes(p) && p.character < r.start.character && p.character > r.end.character, "multi-line range");
  }
}
