#!/bin/bash
# Build the framework from files on disk only (offline). Warms the nightly MIR-dump target and builds the replay binary.
set -e
cd "$(dirname "$0")"
export CARGO_NET_OFFLINE=true
mkdir -p .cache evidence
python3-vt - <<'PY'
import sys
sys.path.insert(0, '.')
from mirsym.dump import dump_mir
from mirsym.harness import build_replay
p, secs, cached = dump_mir(False, force=True)
print('MIR dump (no default features):', p, f'{secs:.1f}s')
print('replay binary:', build_replay(False))
PY
