#!/bin/bash
# Build the framework from files on disk only (offline): warms the two nightly MIR-dump targets and builds the replay binaries.
set -e
cd "$(dirname "$0")"
export CARGO_NET_OFFLINE=true
mkdir -p .cache evidence
python3-vt - <<'PY'
import sys, time
sys.path.insert(0, '.')
from mirsym.dump import dump_mir
from mirsym.harness import build_replay
for feats in (False, True):
    p, secs, cached = dump_mir(feats, force=True)
    print('MIR dump', 'default features' if feats else 'no default features', p, f'{secs:.1f}s', flush=True)
for fc in (False, True):
    t = time.time(); print('replay binary', build_replay(fc), f'{time.time() - t:.1f}s', flush=True)
from mirsym.kanirun import run_kani
res, secs = run_kani(['position_order_is_lexicographic'])
print('kani build + smoke harness', res[0]['status'], f'{secs:.1f}s', flush=True)
PY
