#!/usr/bin/env python3
"""Writes MANIFEST.json (kept in one place so the claims and the not-applicable list stay consistent)."""
import json, os, subprocess
HERE = os.path.dirname(os.path.dirname(os.path.abspath(__file__)))
hooks = subprocess.run(['git', '-C', '/repo', 'log', '--format=%h %s'], stdout=subprocess.PIPE, text=True).stdout.strip().split('\n')
hook_commits = [l.split()[0] for l in hooks if 'verif hooks' in l]

MC = 'model_checking'
TECH = 'bounded symbolic execution of rustc MIR (mirsym) with z3; counterexamples replayed natively'
def check(pid, text, note, design, technique=TECH, engine='mirsym'):
    return {'property_id': pid, 'quick_cmd': f'./check {pid} --tier quick', 'thorough_cmd': f'./check {pid} --tier thorough',
            'evidence_file': f'evidence/{pid}.json', 'replay_cmd_template': f'./check {pid} --replay {{path}}', 'engine': engine,
            'level_claimed': {'category': MC, 'text': text, 'design_ref': design}, 'level_note': note, 'technique': technique}

CHECKS = [
 check('C01', 'PARTIAL (second sentence only). Bounded model checking of fill_module_dependencies executed from MIR on every sequence of <=2 (quick) / <=3 (thorough) dependency descriptors over <=2 specifier texts (all static and dynamic kinds, optional @deno-types, side-effect flag, optional type attribute), every graph kind and JS/TS/declaration/Wasm media type, with the resolver as an arbitrary function: one entry per specifier text in first-occurrence order, code target = resolver answer for the first code import, is_dynamic = conjunction over code imports (static wins), attribute type from the first import carrying one, code-only graphs record no type data, recorded type targets are resolver answers. Counterexamples are replayed natively through the public parse_module with a custom ModuleAnalyzer and Resolver. The first sentence (what a BUILD contains) is NOT covered.',
       'Trusted: interpreter + models (IndexMap entry API, Vec, vec! lowering), resolver and ImportAttributes::get as environment stubs. Outside: the async builder, template-literal dynamic imports, pragmas/JSX/ts-reference dependencies, which resolver answer becomes the type target.', 'DESIGN.md 5 C01'),
 check('C02', 'Bounded model checking of the real validation code: walk(..).validate() and valid() are executed symbolically from the MIR of /repo on EVERY graph state with <=3 (quick) / <=4 (thorough) specifiers and <=1/2 dependencies per module, for every walk-option cube; the solver decides "fails iff a failure is reachable along the selected edges" and that the reported error identifies a reachable failure. Two recorded findings (known_findings.jsonl) are excluded by structural signature and re-confirmed natively on every run.',
       'Trusted: the MIR text parser/interpreter and the container/iterator/Url/str models (listed in the evidence, validated every run against the real crate on random concrete worlds and on every solver model); the representation invariant of DESIGN.md 3; z3. Outside: more specifiers/dependencies than the bound, builder-produced graphs as such, error ordering between roots.', 'DESIGN.md 5 C02'),
 check('C06', 'Bounded model checking of the version selection function: JsrPackageVersionResolver::resolve_version, packages::resolve_version, the date filters and get_for_package executed from MIR over EVERY version world with <=4 (quick) / <=6 (thorough) totally ordered versions, arbitrary registry subset / yanked flags / creation dates / cached set / cutoff, an arbitrary matches predicate (generalises over semver requirements), an arbitrary sequence of already-selected versions and an arbitrary HashMap iteration order; the solver decides equality with the four-tier rule of the statement, the not-found payload, and independence from iteration order. One recorded boundary finding (version created exactly at the cutoff).',
       'Trusted: interpreter + models (Version as ranked atom, VersionReq::matches as arbitrary predicate, chrono instants as 16-bit integers, HashMap iteration as symbolic permutation), z3. Outside: graph-level bookkeeping (resolve_jsr_nv, lockfile seeding, tag rejection), real semver parsing, more versions than the bound.', 'DESIGN.md 5 C06'),
 check('C08', 'PARTIAL. Bounded model checking of the lookup and offset-arithmetic kernels only: for ALL 64-bit positions Position ordering is lexicographic and PositionRange::includes is the closed lexicographic interval test (mirsym on MIR and Kani on the compiled crate); Dependency::includes with <=2 (quick) / <=3 (thorough) imports plus the type resolution returns a range containing the position and returns nothing only when no range contains it; comment_source_to_position_range maps a match inside a comment to [comment_start+2+start-pad, comment_start+2+end+pad] through an arbitrary offset->position function. The main clause (which dependencies the swc visitor / regexes / JSDoc parsers report) is NOT covered.',
       'Trusted: interpreter + models (SourcePos arithmetic as 64-bit addition, line_and_column_index as an uninterpreted function), Kani/CBMC for the scalar cross-check. Outside: the parser visitor, pragma regexes, the v1->v2 upgrader, serde.', 'DESIGN.md 5 C08', technique='bounded symbolic execution of rustc MIR (mirsym) with z3 over 64-bit positions; Kani/CBMC cross-check of the scalar kernels'),
 check('C14', 'Bounded model checking of resolve/get/contains/try_get/try_get_prefer_types/specifiers/resolve_dependency executed from MIR on every graph state (N<=3 quick, N<=4 thorough) and on redirect-only worlds up to 12 specifiers (chains crossing MAX_REDIRECTS, free redirect maps up to N=6/7): termination (unwinding assertion), idempotence, and agreement with what the real walk reaches. Three recorded findings are excluded by signature and re-confirmed natively each run; one defect (specifiers() one-hop) was repaired by a fix: commit.',
       'Trusted: interpreter + models + invariant (as C02); the oracle "what a walk reaches" is itself checked against the real walk executed from MIR (cube walk_agreement). Outside: N beyond the bound.', 'DESIGN.md 5 C14'),
 check('C15', 'Bounded model checking of ModuleGraph::walk / ModuleEntryIterator::{new,next,analyze_module_deps,is_checkable,skip_previous_dependencies} executed from MIR on every graph state (N<=3, D<=1 quick; N<=4 or D<=2 thorough), every option cube and arbitrary root subsets: each specifier yielded at most once, yielded set = option-selected reachable set (independent fixpoint oracle), entry kinds and redirect targets, exhaustion, arbitrary skip sets.',
       'Trusted: interpreter + models + invariant (as C02). Outside: N/D beyond the bound; the errors() listing is covered through validate() in C02 (first error) rather than as a full multiset here.', 'DESIGN.md 5 C15'),
 check('C20', 'PARTIAL. Kani/CBMC on the compiled crate: ModuleTextSource::try_get_original_bytes returns nothing or exactly the loader bytes for arbitrary stored bytes (<=4 quick, <=8 thorough) under the decoder contract for each decoded-kind marker, with pointer/UB checks on the unsafe Arc<str>->Arc<[u8]> reinterpretation. mirsym on MIR: JsModule/JsonModule::size = byte length of the stored text for every marker; new_source_with_text passes the header charset when given, else the detected one, and stores exactly the decoder text/kind or a Decode error. The decoder itself (deno_media_type/encoding_rs) and header parsing are NOT covered.',
       'Trusted: Kani 0.68/CBMC 6.11, the decoder contract stated in the harness, interpreter + models for the two MIR kernels. Outside: charset detection, header parsing, the decoder.', 'DESIGN.md 5 C20', technique='Kani (CBMC) proof harnesses with unwinding assertions and cover witnesses; mirsym/z3 for the size and charset kernels', engine='kani+mirsym'),
 check('C17', 'Bounded model checking of prune_types executed from MIR on every All-kind graph state (N<=3 quick, N<=4 thorough): post-state reports CodeOnly, has no imports/type resolutions/@deno-types/types dependency/fast-check data, keeps exactly the code-reachable entries and redirects unchanged otherwise, has_node_specifier recomputed, and valid() gives the same verdict and first error before and after. Partial: equality with a second code-only BUILD is outside (needs the async builder). One recorded finding excluded by signature.',
       'Trusted: interpreter + models + invariant. Outside: the builder; TypesOnly pre-states; N beyond the bound.', 'DESIGN.md 5 C17'),
 check('C18', 'Bounded model checking of segment() executed from MIR on every graph state of every kind and every choice of segment roots (N<=3 quick, N<=4 thorough): the segment contains exactly what its roots reach, a plain copy for subset roots, and resolve_dependency / try_get / validate executed on the segment and on the original agree for everything the segment contains. Partial: equality with a direct BUILD is outside. Two recorded findings excluded by signature.',
       'Trusted: interpreter + models + invariant. Outside: the builder; N beyond the bound.', 'DESIGN.md 5 C18'),
]

NA = {
 'C03': 'fault assignments to every load call of a build: needs the async builder loop executed symbolically; not encodable (DESIGN.md 5 C03).',
 'C04': 'interleavings of future completions and hasher seeds inside the builder: Kani has no concurrency model and the completion order lives inside futures queues (DESIGN.md 5 C04).',
 'C05': 'per-load-call checksum obligations live in the coroutine-lowered try_load and builder code; not encodable within reach (tier-2 attempt not built).',
 'C07': 'Url::join/format!/semver parsing and builder bookkeeping: string-processing loops whose trip count grows with input (a concrete Url::parse alone costs 20 s in Kani).',
 'C09': 'closure of fast-check output over all programs needs the swc pipeline; lattice kernel not built yet.',
 'C10': 'quantifies over programs transformed by ~50 match arms over the swc AST; no encodable kernel carries the property.',
 'C11': 'relational property over programs through the swc transform; no encodable kernel.',
 'C12': 'histories of build / fast check with cache / edit / rebuild: needs builder + symbol analysis + transform.',
 'C13': 'serde-derive (de)serialisers over serde_json text and a relation between two registry builds: symbolic strings through serde_json are out of reach.',
 'C16': 'symbol tables are built from swc ASTs with self-referential boxes; no encodable kernel.',
 'C19': 'histories of build/reload through the async builder.',
}
claimed = {c['property_id'] for c in CHECKS}
m = {
 'version': 1,
 'setup_cmd': './setup.sh',
 'hooks': {'guard': 'deno_graph_verif', 'enable': 'RUSTFLAGS="--cfg deno_graph_verif" (set by the checks when they build the native replay binary /verif/replay; the MIR dump does not need the hooks)',
           'baseline_off_cmd': 'cd /repo && cargo test --workspace --no-fail-fast --offline', 'source_commits': hook_commits, 'add_only': True},
 'engines': [{'name': 'kani', 'path': 'kani/', 'serves_properties': ['C08', 'C20'], 'kind_free_text': 'Kani 0.68 harness crate with a path dependency on /repo (default-features = false); failing harnesses are replayed with concrete playback natively'}, {'name': 'mirsym', 'path': 'mirsym/', 'serves_properties': sorted(claimed), 'kind_free_text': 'Python + z3 bounded symbolic executor over `cargo +nightly rustc -- -Zunpretty=mir` of /repo (regenerated every run), guarded single store, layered unrolling with unwinding assertions, container/iterator models, native replay of every model'}],
 'checks': CHECKS,
 'not_applicable': [{'property_id': k, 'reason': v} for k, v in sorted(NA.items()) if k not in claimed],
 'notes': 'Exit codes of ./check: 0 = every query unsat (known findings printed as KNOWN-FINDING lines), 1 = natively replayed violation (VIOLATION line), 2 = inconclusive (timeout, unsupported construct, model/real mismatch). known_findings.jsonl lists recorded defects by structural signature; fixed: lines suppress nothing.',
}
open(os.path.join(HERE, 'MANIFEST.json'), 'w').write(json.dumps(m, indent=1))
print('claimed', sorted(claimed), 'n/a', len(m['not_applicable']))
