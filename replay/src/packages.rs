//! C06 replay: the real `JsrPackageVersionResolver::resolve_version` / `JsrVersionResolver::get_for_package`
//! on a concrete version world. Version i of the universe is `0.0.<i>` (rank order = semver order); an arbitrary
//! `matches` predicate is expressed as an npm-style union of exact versions.
use std::collections::HashMap;
use std::collections::HashSet;

use deno_graph::packages::*;
use deno_semver::Version;
use deno_semver::VersionReq;
use deno_semver::package::PackageReq;
use serde_json::Value;
use serde_json::json;

fn ver(i: u64) -> Version {
  Version::parse_standard(&format!("0.0.{i}")).unwrap()
}
fn date(secs: u64) -> chrono::DateTime<chrono::Utc> {
  chrono::DateTime::from_timestamp(secs as i64, 0).unwrap()
}

pub fn run(input: &Value) -> Value {
  let w = &input["world"];
  let mut outputs = vec![];
  for op in input["ops"].as_array().unwrap() {
    outputs.push(match op["op"].as_str().unwrap() {
      "resolve_version" => resolve(w),
      "get_for_package" => exclusion(op),
      o => json!({"error": format!("unknown op {o}")}),
    });
  }
  json!({"outputs": outputs})
}

fn exclusion(op: &Value) -> Value {
  let mut options = NewestDependencyDateOptions::default();
  let cutoff = op["date"].as_u64();
  options.date = cutoff.map(|d| NewestDependencyDate(date(d)));
  if op["exact"].as_bool().unwrap_or(false) {
    // the entry equals the package name, is a strict prefix of it, or is unrelated
    let entry = if op["exact_equals"].as_bool().unwrap_or(true) {
      "@scope/pkg"
    } else if op["exact_is_prefix"].as_bool().unwrap_or(false) {
      "@scope/pk"
    } else {
      "@zzz/other"
    };
    options.exclude_jsr_pkgs.insert(entry.into());
  }
  for p in op["prefixes"].as_array().unwrap() {
    // [present, matches]
    if p[0].as_bool().unwrap() {
      options.exclude_jsr_pkg_prefixes.push(if p[1].as_bool().unwrap() {
        "@scope/".into()
      } else {
        "@other/".into()
      });
    }
  }
  let resolver = JsrVersionResolver {
    newest_dependency_date_options: options,
  };
  let info = JsrPackageInfo {
    versions: HashMap::new(),
    latest: None,
  };
  let r = resolver.get_for_package(&"@scope/pkg".into(), &info);
  // the cutoff is private: a version created exactly at the probe instant matches iff no cutoff applies
  let probe = cutoff.unwrap_or(0);
  let applies = !r.matches_newest_dependency_date(&JsrPackageInfoVersion {
    created_at: Some(date(probe)),
    yanked: false,
  });
  json!({"cutoff_applies": applies})
}

fn resolve(w: &Value) -> Value {
  let mut versions = HashMap::new();
  for (k, v) in w["registry"].as_object().unwrap() {
    versions.insert(
      ver(k.parse().unwrap()),
      JsrPackageInfoVersion {
        created_at: v["created_at"].as_u64().map(date),
        yanked: v["yanked"].as_bool().unwrap(),
      },
    );
  }
  let info = JsrPackageInfo {
    versions,
    latest: None,
  };
  let matches: Vec<u64> =
    w["matches"].as_array().unwrap().iter().map(|x| x.as_u64().unwrap()).collect();
  let req_text = if matches.is_empty() {
    "9.9.9".to_string()
  } else {
    matches.iter().map(|i| format!("0.0.{i}")).collect::<Vec<_>>().join(" || ")
  };
  let req = PackageReq {
    name: "@scope/pkg".into(),
    version_req: VersionReq::parse_from_npm(&req_text).unwrap(),
  };
  let existing: Vec<Version> =
    w["existing"].as_array().unwrap().iter().map(|x| ver(x.as_u64().unwrap())).collect();
  let cached: HashSet<Version> =
    w["cached"].as_array().unwrap().iter().map(|x| ver(x.as_u64().unwrap())).collect();
  let mut options = NewestDependencyDateOptions::default();
  options.date = w["cutoff"].as_u64().map(|d| NewestDependencyDate(date(d)));
  let resolver = JsrVersionResolver {
    newest_dependency_date_options: options,
  };
  let r = resolver.get_for_package(&"@scope/pkg".into(), &info);
  match r.resolve_version(&req, existing.iter(), &cached) {
    Ok(v) => json!({"ok": {"version": v.version.patch, "yanked": v.is_yanked}}),
    Err(e) => json!({"err": {"date": e.newest_dependency_date.map(|d| d.0.timestamp())}}),
  }
}
