//! C06 replay: real `JsrPackageVersionResolver::resolve_version` on a concrete version world.
use serde_json::Value;
use serde_json::json;

pub fn run(_input: &Value) -> Value {
  json!({"error": "packages replay not built yet"})
}
