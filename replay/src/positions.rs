//! C08 replay: Position ordering, PositionRange::includes and Dependency::includes on concrete values.
use deno_graph::*;
use serde_json::Value;
use serde_json::json;

fn pos(v: &Value) -> Position {
  Position {
    line: v[0].as_u64().unwrap() as usize,
    character: v[1].as_u64().unwrap() as usize,
  }
}
fn prange(v: &Value) -> PositionRange {
  PositionRange {
    start: pos(&v[0]),
    end: pos(&v[1]),
  }
}
fn range(v: &Value) -> Range {
  Range {
    specifier: ModuleSpecifier::parse("file:///a.ts").unwrap(),
    range: prange(v),
    resolution_mode: None,
  }
}

pub fn run(input: &Value) -> Value {
  let mut outputs = vec![];
  for op in input["ops"].as_array().unwrap() {
    outputs.push(match op["op"].as_str().unwrap() {
      "position_cmp" => {
        let o = pos(&op["a"]).cmp(&pos(&op["b"]));
        json!({"ordering": o as i8})
      }
      "range_includes" => {
        let r = PositionRange {
          start: pos(&op["start"]),
          end: pos(&op["end"]),
        };
        json!({"includes": r.includes(pos(&op["p"]))})
      }
      "dependency_includes" => {
        let imports = op["imports"]
          .as_array()
          .unwrap()
          .iter()
          .map(|r| Import {
            specifier: "./x".to_string(),
            kind: ImportKind::Es,
            specifier_range: range(r),
            is_dynamic: false,
            is_side_effect: false,
            attributes: Default::default(),
          })
          .collect();
        let maybe_type = match &op["type"] {
          Value::Null => Resolution::None,
          t => {
            let r = range(&t["range"]);
            if t["err"].as_bool().unwrap() {
              Resolution::Err(Box::new(ResolutionError::ResolverError {
                error: std::sync::Arc::new(source::ResolveError::Other(
                  deno_error::JsErrorBox::generic("verif"),
                )),
                specifier: "x".to_string(),
                range: r,
              }))
            } else {
              Resolution::Ok(Box::new(ResolutionResolved {
                specifier: ModuleSpecifier::parse("file:///t.ts").unwrap(),
                range: r,
              }))
            }
          }
        };
        let dep = Dependency {
          maybe_type,
          imports,
          ..Default::default()
        };
        json!({"range": dep.includes(pos(&op["p"])).map(|r| json!([[r.range.start.line, r.range.start.character], [r.range.end.line, r.range.end.character]]))})
      }
      o => json!({"error": format!("unknown op {o}")}),
    });
  }
  json!({"outputs": outputs})
}
