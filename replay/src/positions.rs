//! C08 replay: Position ordering, PositionRange::includes and Dependency::includes on concrete values.
use deno_graph::*;
use serde_json::Value;
use serde_json::json;

fn pos(v: &Value) -> Position {
  Position {
    line: v[0].as_u64().unwrap() as usize,
    character: v[1].as_u64().unwrap() as usize,
  }
}
fn prange(v: &Value) -> PositionRange {
  PositionRange {
    start: pos(&v[0]),
    end: pos(&v[1]),
  }
}
fn range(v: &Value) -> Range {
  Range {
    specifier: ModuleSpecifier::parse("file:///a.ts").unwrap(),
    range: prange(v),
    resolution_mode: None,
  }
}

pub fn run(input: &Value) -> Value {
  let mut outputs = vec![];
  for op in input["ops"].as_array().unwrap() {
    outputs.push(match op["op"].as_str().unwrap() {
      "position_cmp" => {
        let o = pos(&op["a"]).cmp(&pos(&op["b"]));
        json!({"ordering": o as i8})
      }
      "range_includes" => {
        let r = PositionRange {
          start: pos(&op["start"]),
          end: pos(&op["end"]),
        };
        json!({"includes": r.includes(pos(&op["p"]))})
      }
      "dependency_includes" => {
        let imports = op["imports"]
          .as_array()
          .unwrap()
          .iter()
          .map(|r| Import {
            specifier: "./x".to_string(),
            kind: ImportKind::Es,
            specifier_range: range(r),
            is_dynamic: false,
            is_side_effect: false,
            attributes: Default::default(),
          })
          .collect();
        let maybe_type = match &op["type"] {
          Value::Null => Resolution::None,
          t => {
            let r = range(&t["range"]);
            if t["err"].as_bool().unwrap() {
              Resolution::Err(Box::new(ResolutionError::ResolverError {
                error: std::sync::Arc::new(source::ResolveError::Other(
                  deno_error::JsErrorBox::generic("verif"),
                )),
                specifier: "x".to_string(),
                range: r,
              }))
            } else {
              Resolution::Ok(Box::new(ResolutionResolved {
                specifier: ModuleSpecifier::parse("file:///t.ts").unwrap(),
                range: r,
              }))
            }
          }
        };
        let dep = Dependency {
          maybe_type,
          imports,
          ..Default::default()
        };
        json!({"range": dep.includes(pos(&op["p"])).map(|r| json!([[r.range.start.line, r.range.start.character], [r.range.end.line, r.range.end.character]]))})
      }
      "v1_upgrade" => {
        // through the public API: an old-format dependency with leading comments is upgraded by module_graph_1_to_2
        let comments: Vec<Value> = op["comments"]
          .as_array()
          .unwrap()
          .iter()
          .map(|c| json!({"text": c["text"], "range": [{"line": c["range"][0][0], "character": c["range"][0][1]}, {"line": c["range"][1][0], "character": c["range"][1][1]}]}))
          .collect();
        let mut info = json!({"dependencies": [{"type": "static", "kind": "import", "specifier": "./a.js",
          "specifierRange": [[0, 0], [0, 1]], "leadingComments": comments}]});
        deno_graph::analysis::module_graph_1_to_2(&mut info);
        match info["dependencies"][0].get("typesSpecifier") {
          Some(t) => json!({"range": [[t["range"][0][0], t["range"][0][1]], [t["range"][1][0], t["range"][1][1]]]}),
          None => json!({"range": null}),
        }
      }
      #[cfg(feature = "fast_check")]
      "analyze_pragma" => {
        // through the public API: a source whose `@deno-types` pragma comment starts at a chosen byte offset, with multi-byte
        // characters before the comment (m) and inside the specifier (k), analysed by the real parser-based analyzer
        let g = |k: &str| op[k].as_u64().unwrap() as usize;
        let spec = format!("{}{}", "\u{e9}".repeat(g("k")), "x".repeat(g("n")));
        let source = format!(
          "{}/*{}{}*/// @deno-types=\"{}\"\nimport \"./a.js\";\n",
          "\n".repeat(g("ln")), "\u{e9}".repeat(g("m")), "a".repeat(g("a")), spec
        );
        let analyzer = deno_graph::ast::ParserModuleAnalyzer::default();
        let info = analyzer
          .analyze_sync(&ModuleSpecifier::parse("file:///m.ts").unwrap(), source.into(), MediaType::TypeScript)
          .unwrap();
        let mut out = json!({"range": null});
        for d in &info.dependencies {
          if let deno_graph::analysis::DependencyDescriptor::Static(s) = d {
            if let Some(t) = &s.types_specifier {
              out = json!({"range": [[t.range.start.line, t.range.start.character], [t.range.end.line, t.range.end.character]], "text": t.text});
            }
          }
        }
        out
      }
      "module_size" => {
        use deno_media_type::encoding::DecodedArcSourceDetailKind as K;
        let kind = match op["kind"].as_u64().unwrap() { 0 => K::Unchanged, 1 => K::Changed, _ => K::OnlyUtf8Bom };
        let text: std::sync::Arc<str> = "x".repeat(op["len"].as_u64().unwrap() as usize).into();
        let spec = ModuleSpecifier::parse("file:///m.ts").unwrap();
        let js = JsModule {
          is_script: false, dependencies: Default::default(), maybe_cache_info: None, mtime: None,
          source: ModuleTextSource { text: text.clone(), decoded_kind: kind }, maybe_types_dependency: None, media_type: MediaType::TypeScript,
          specifier: spec.clone(), maybe_source_map_dependency: None,
          #[cfg(feature = "fast_check")]
          fast_check: None,
        };
        let json_m = JsonModule { specifier: spec, maybe_cache_info: None, source: ModuleTextSource { text, decoded_kind: kind }, mtime: None, media_type: MediaType::Json };
        json!({"js": js.size(), "json": json_m.size()})
      }
      "charset_choice" => {
        // UTF-16LE "a" without a BOM: decodes to "a" only if the header charset is honoured
        let scheme = op["scheme"].as_str().unwrap();
        let spec = ModuleSpecifier::parse(&match scheme { "file" => "file:///m.ts".to_string(), "https" | "http" => format!("{scheme}://h/m.ts"), s => format!("{s}:m.ts") }).unwrap();
        let headers = if op["has_header"].as_bool().unwrap() {
          // `label_supported: false` serves a charset label the decoder does not know (the decoder then reports an error)
          let label = if op["label_supported"].as_bool().unwrap_or(true) { "utf-16le" } else { "utf-32" };
          Some(std::collections::HashMap::from([("content-type".to_string(), format!("application/typescript; charset={label}"))]))
        } else { None };
        let analyzer = crate::filldeps::EmptyAnalyzer;
        let r = futures::executor::block_on(parse_module(ParseModuleOptions {
          graph_kind: GraphKind::All, specifier: spec, maybe_headers: headers, mtime: None, content: std::sync::Arc::from(vec![0x61u8, 0x00u8]),
          file_system: &source::NullFileSystem, jsr_url_provider: Default::default(), maybe_resolver: None, module_analyzer: &analyzer,
        }));
        match r {
          Ok(m) => json!({"used": if m.source().map(|s| &**s == "a").unwrap_or(false) { "header-charset" } else { "detected-charset" }}),
          Err(_) => json!({"used": "error"}),
        }
      }
      "try_load" => crate::tryload::run_op(op),
      "visit_lock" => crate::tryload::run_lock_op(op),
      "manifest_lock" => crate::tryload::run_manifest_lock_op(op),
      "parse_source_and_info" => {
        // parse_module_source_and_info through the cfg(deno_graph_verif) hook. The media type is realised by the file extension,
        // the header charset by `content-type: text/plain; charset=utf-16le`; the content is UTF-16LE "1" without a BOM, which
        // decodes to "1" only if the header charset reaches the decoder (and to "1\0" under the detected UTF-8).
        struct A(bool);
        #[async_trait::async_trait(?Send)]
        impl deno_graph::analysis::ModuleAnalyzer for A {
          async fn analyze(&self, _s: &ModuleSpecifier, _t: std::sync::Arc<str>, _m: MediaType) -> Result<deno_graph::analysis::ModuleInfo, deno_error::JsErrorBox> {
            if self.0 { Ok(deno_graph::analysis::ModuleInfo::default()) } else { Err(deno_error::JsErrorBox::generic("analyzer error")) }
          }
        }
        let b = |k: &str| op[k].as_bool().unwrap();
        let ext = match op["media_type"].as_str().unwrap() {
          "JavaScript" => "js", "Jsx" => "jsx", "Mjs" => "mjs", "Cjs" => "cjs", "TypeScript" => "ts", "Mts" => "mts", "Cts" => "cts",
          "Dts" => "d.ts", "Dmts" => "d.mts", "Dcts" => "d.cts", "Tsx" => "tsx", "Css" => "css", "Json" => "json", "Jsonc" => "jsonc",
          "Json5" => "json5", "Markdown" => "md", "Wasm" => "wasm", "SourceMap" => "map", "Unknown" => "bin", o => panic!("media type {o} is not realisable by extension"),
        };
        let scheme = op["scheme"].as_str().unwrap();
        let spec = ModuleSpecifier::parse(&match scheme { "file" => format!("file:///m.{ext}"), s => format!("{s}://h/m.{ext}") }).unwrap();
        let headers = if b("has_headers") {
          let ct = if b("has_charset") { "text/plain; charset=utf-16le" } else { "text/plain" };
          Some(std::collections::HashMap::from([("content-type".to_string(), ct.to_string())]))
        } else { None };
        let mtime = if b("has_mtime") { Some(std::time::UNIX_EPOCH + std::time::Duration::from_secs(5)) } else { None };
        let is_wasm = op["media_type"] == "Wasm";
        let content: std::sync::Arc<[u8]> = if is_wasm && b("wasm_ok") { std::sync::Arc::from(vec![0u8, 0x61, 0x73, 0x6d, 1, 0, 0, 0]) } else { std::sync::Arc::from(vec![0x31u8, 0x00u8]) };
        let attr = op["attribute"].as_str().map(|k| (range(&json!([[0, 0], [0, 1]])), k.to_string()));
        let referrer = if b("has_referrer") { Some(range(&json!([[1, 0], [1, 1]]))) } else { None };
        let spr = if b("has_source_phase_referrer") { Some(range(&json!([[2, 0], [2, 1]]))) } else { None };
        let analyzer = A(b("analyzer_ok"));
        let r = futures::executor::block_on(verif_parse_module_source_and_info(
          &analyzer, spec.clone(), headers, mtime, content.clone(), attr, referrer, spr, b("is_root"), b("is_dynamic_branch"), b("unstable_config_imports"),
        ));
        match r {
          Ok(m) => json!({
            "result": m.kind, "media_type": format!("{:?}", m.media_type), "has_mtime": m.mtime.is_some(), "same_specifier": m.specifier == spec,
            "charset_used": m.text.as_ref().map(|t| if &**t == "1" { "header-charset" } else { "detected-charset" }),
            "wasm_bytes_are_the_content": m.bytes.as_ref().map(|x| **x == *content),
          }),
          Err(e) => {
            let d = format!("{:?}", e.as_kind());
            json!({"result": "err", "err_kind": d.split(|c: char| !c.is_alphanumeric()).next().unwrap()})
          }
        }
      }
      #[cfg(feature = "fast_check")]
      "imported_exports_add" => {
        // C09 lattice kernel through the cfg(deno_graph_verif) hook: values as (kind, [(name, null | [members])])
        fn val(v: &Value) -> deno_graph::fast_check::VerifImportedExports {
          (
            v["kind"].as_u64().unwrap() as u8,
            v["entries"].as_array().unwrap().iter().map(|e| {
              (e[0].as_str().unwrap().to_string(), e[1].as_array().map(|m| m.iter().map(|x| x.as_str().unwrap().to_string()).collect()))
            }).collect(),
          )
        }
        fn out(v: &deno_graph::fast_check::VerifImportedExports) -> Value {
          let mut entries: Vec<Value> = v.1.iter().map(|(n, m)| {
            let mut mm = m.clone();
            if let Some(x) = mm.as_mut() { x.sort(); }
            json!([n, mm])
          }).collect();
          entries.sort_by_key(|e| e[0].as_str().unwrap().to_string());
          json!({"kind": v.0, "entries": if v.0 == 2 { Value::Array(entries) } else { json!([]) }})
        }
        let (after, delta) = deno_graph::fast_check::verif_imported_exports_add(val(&op["self"]), val(&op["x"]));
        json!({"after": out(&after), "delta": delta.as_ref().map(out)})
      }
      o => json!({"error": format!("unknown op {o}")}),
    });
  }
  json!({"outputs": outputs})
}
