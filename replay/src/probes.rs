//! Build-level probes: the irregular graph states behind the recorded findings are produced by the real builder
//! (`ModuleGraph::build` with a `MemoryLoader`), i.e. they are build-reachable and not artefacts of the symbolic world.
use deno_graph::source::MemoryLoader;
use deno_graph::source::Source;
use deno_graph::*;
use serde_json::Value;
use serde_json::json;

fn url(s: &str) -> ModuleSpecifier {
  ModuleSpecifier::parse(s).unwrap()
}

fn build(loader: &MemoryLoader, roots: Vec<&str>, kind: GraphKind, seed_redirects: &[(&str, &str)]) -> ModuleGraph {
  let mut graph = ModuleGraph::new(kind);
  graph.fill_from_lockfile(FillFromLockfileOptions {
    redirects: seed_redirects.iter().copied(),
    package_specifiers: std::iter::empty(),
  });
  futures::executor::block_on(graph.build(
    roots.into_iter().map(url).collect(),
    vec![],
    loader,
    Default::default(),
  ));
  graph
}

fn walk_entries(graph: &ModuleGraph, root: &str, follow_dynamic: bool) -> Vec<String> {
  let r = url(root);
  graph
    .walk(
      std::iter::once(&r),
      WalkOptions {
        check_js: CheckJsOption::True,
        follow_dynamic,
        kind: graph.graph_kind(),
        prefer_fast_check_graph: false,
      },
    )
    .map(|(s, e)| {
      format!(
        "{s} {}",
        match e {
          ModuleEntryRef::Module(_) => "module",
          ModuleEntryRef::Err(_) => "err",
          ModuleEntryRef::Redirect(_) => "redirect",
        }
      )
    })
    .collect()
}

pub fn run() -> Value {
  let mut out = serde_json::Map::new();
  // 1. lockfile-seeded two-hop chain: x -> y and y -> z are seeded; the builder follows one hop and loads y
  {
    let loader = MemoryLoader::new(
      vec![("https://h/y.ts", Source::Module { specifier: "https://h/y.ts", maybe_headers: None, content: "export const y = 1;" })],
      vec![],
    );
    let g = build(&loader, vec!["https://h/x.ts"], GraphKind::All, &[("https://h/x.ts", "https://h/y.ts"), ("https://h/y.ts", "https://h/z.ts")]);
    out.insert("lockfile_chain".into(), json!({
      "walk": walk_entries(&g, "https://h/x.ts", false),
      "resolve(x)": g.resolve(&url("https://h/x.ts")).as_str(),
      "get(x)_is_some": g.get(&url("https://h/x.ts")).is_some(),
      "valid": g.valid().is_ok(),
      "entry_at_redirect_source": g.redirects.contains_key(&url("https://h/y.ts")) && g.verif_slot_kinds().iter().any(|(s, _)| s.as_str() == "https://h/y.ts"),
    }));
  }
  // 2. redirect cycle a -> b -> a
  {
    let loader = MemoryLoader::new(
      vec![
        ("https://h/a.ts", Source::<&str, &str>::Redirect("https://h/b.ts")),
        ("https://h/b.ts", Source::<&str, &str>::Redirect("https://h/a.ts")),
      ],
      vec![],
    );
    let g = build(&loader, vec!["https://h/a.ts"], GraphKind::All, &[]);
    let a = url("https://h/a.ts");
    let b = url("https://h/b.ts");
    out.insert("redirect_cycle".into(), json!({
      "walk": walk_entries(&g, "https://h/a.ts", false),
      "resolve(a)": g.resolve(&a).as_str(), "resolve(b)": g.resolve(&b).as_str(),
      "resolve(resolve(a))": g.resolve(g.resolve(&a)).as_str(),
      "try_get(a)_is_err": g.try_get(&a).is_err(), "try_get(b)_is_err": g.try_get(&b).is_err(),
      "slots": g.verif_slot_kinds().iter().map(|(s, k)| format!("{s} {k}")).collect::<Vec<_>>(),
    }));
  }
  // 3. ten-hop chain s0 -> ... -> s10 (legal for the loader)
  {
    let names: Vec<String> = (0..=10).map(|i| format!("https://h/s{i}.ts")).collect();
    let mut sources: Vec<(&str, Source<&str, &str>)> = vec![];
    for i in 0..10 {
      sources.push((names[i].as_str(), Source::Redirect(names[i + 1].as_str())));
    }
    sources.push((names[10].as_str(), Source::Module { specifier: names[10].as_str(), maybe_headers: None, content: "export const z = 1;" }));
    let loader = MemoryLoader::new(sources, vec![]);
    let g = build(&loader, vec![names[0].as_str()], GraphKind::All, &[]);
    let s0 = url(&names[0]);
    out.insert("ten_hop_chain".into(), json!({
      "valid": g.valid().is_ok(),
      "walk_reaches_module": walk_entries(&g, &names[0], false).last().cloned(),
      "resolve(s0)": g.resolve(&s0).as_str(),
      "resolve(resolve(s0))": g.resolve(g.resolve(&s0)).as_str(),
      "get(s0)_is_some": g.get(&s0).is_some(), "contains(s0)": g.contains(&s0),
    }));
  }
  // 4. missing root, dynamic imports followed
  {
    let loader = MemoryLoader::new(Vec::<(&str, Source<&str, &str>)>::new(), vec![]);
    let g = build(&loader, vec!["https://h/missing.ts"], GraphKind::All, &[]);
    let r = url("https://h/missing.ts");
    let opts = |fd| WalkOptions { check_js: CheckJsOption::True, follow_dynamic: fd, kind: GraphKind::All, prefer_fast_check_graph: false };
    out.insert("missing_root".into(), json!({
      "validate_follow_dynamic_false_is_ok": g.walk(std::iter::once(&r), opts(false)).validate().is_ok(),
      "validate_follow_dynamic_true_is_ok": g.walk(std::iter::once(&r), opts(true)).validate().is_ok(),
      "walk": walk_entries(&g, "https://h/missing.ts", true),
    }));
  }
  Value::Object(out)
}
