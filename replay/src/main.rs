//! Native replay: rebuilds a solver world as a real `deno_graph::ModuleGraph` through the
//! `cfg(deno_graph_verif)` hooks, runs the requested operations through the public API and prints
//! what the real crate answers as JSON. The Python side compares that with the oracle (to confirm
//! a violation) and with the interpreter (to validate the encoding).
use std::collections::HashMap;
use std::str::FromStr;
use std::sync::Arc;

use deno_graph::*;
use indexmap::IndexMap;
use serde_json::Value;
use serde_json::json;

mod packages;
mod positions;
mod tryload;
mod probes;
mod filldeps;

struct Ctx {
  urls: Vec<ModuleSpecifier>,
  ids: HashMap<ModuleSpecifier, usize>,
}

fn url_for(i: usize, scheme: &str) -> ModuleSpecifier {
  let s = match scheme {
    "https" | "http" => format!("{scheme}://h/m{i}"),
    "file" => format!("file:///m{i}"),
    "data" => format!("data:text/plain,m{i}"),
    "other" => format!("ext:m{i}"),
    s => format!("{s}:m{i}"),
  };
  ModuleSpecifier::parse(&s).unwrap()
}

fn text_for(t: u64, file_text: bool) -> String {
  if file_text {
    format!("FILE:///t{t}")
  } else {
    format!("./t{t}")
  }
}

fn range(referrer: &ModuleSpecifier, rid: u64) -> Range {
  Range {
    specifier: referrer.clone(),
    range: PositionRange {
      start: Position {
        line: rid as usize,
        character: 0,
      },
      end: Position {
        line: rid as usize,
        character: 1,
      },
    },
    resolution_mode: None,
  }
}

impl Ctx {
  fn id(&self, u: &ModuleSpecifier) -> Value {
    match self.ids.get(u) {
      Some(i) => json!(i),
      None => json!(u.as_str()),
    }
  }

  fn resolution(&self, referrer: usize, v: &Value) -> Resolution {
    if v.is_null() {
      return Resolution::None;
    }
    let rid = v["rid"].as_u64().unwrap_or(0);
    let r = range(&self.urls[referrer], rid);
    if let Some(t) = v.get("ok").and_then(|t| t.as_u64()) {
      Resolution::Ok(Box::new(ResolutionResolved {
        specifier: self.urls[t as usize].clone(),
        range: r,
      }))
    } else {
      Resolution::Err(Box::new(ResolutionError::ResolverError {
        error: Arc::new(source::ResolveError::Other(
          deno_error::JsErrorBox::generic("verif"),
        )),
        specifier: "verif".to_string(),
        range: r,
      }))
    }
  }

  fn deps(&self, referrer: usize, v: &Value) -> IndexMap<String, Dependency> {
    let mut out = IndexMap::new();
    for d in v.as_array().map(|a| a.as_slice()).unwrap_or(&[]) {
      let text = text_for(
        d["text"].as_u64().unwrap(),
        d["file_text"].as_bool().unwrap_or(false),
      );
      out.insert(
        text,
        Dependency {
          maybe_code: self.resolution(referrer, &d["code"]),
          maybe_type: self.resolution(referrer, &d["type"]),
          maybe_deno_types_specifier: if d["deno_types"]
            .as_bool()
            .unwrap_or(false)
          {
            Some("./deno_types".to_string())
          } else {
            None
          },
          is_dynamic: d["dynamic"].as_bool().unwrap_or(false),
          maybe_attribute_type: None,
          imports: vec![],
        },
      );
    }
    out
  }
}

fn media_type(name: &str) -> MediaType {
  use MediaType::*;
  match name {
    "JavaScript" => JavaScript,
    "Jsx" => Jsx,
    "Mjs" => Mjs,
    "Cjs" => Cjs,
    "TypeScript" => TypeScript,
    "Mts" => Mts,
    "Cts" => Cts,
    "Dts" => Dts,
    "Dmts" => Dmts,
    "Dcts" => Dcts,
    "Tsx" => Tsx,
    "Css" => Css,
    "Json" => Json,
    "Jsonc" => Jsonc,
    "Json5" => Json5,
    "Markdown" => Markdown,
    "Html" => Html,
    "Sql" => Sql,
    "Wasm" => Wasm,
    "SourceMap" => SourceMap,
    "Unknown" => Unknown,
    other => panic!("media type {other}"),
  }
}

fn graph_kind(v: &Value) -> GraphKind {
  match v.as_str().unwrap() {
    "All" => GraphKind::All,
    "CodeOnly" => GraphKind::CodeOnly,
    "TypesOnly" => GraphKind::TypesOnly,
    o => panic!("graph kind {o}"),
  }
}

fn build_graph(w: &Value) -> (ModuleGraph, Ctx) {
  let n = w["n"].as_u64().unwrap() as usize;
  let urls: Vec<ModuleSpecifier> = (0..n)
    .map(|i| url_for(i, w["schemes"][i].as_str().unwrap_or("https")))
    .collect();
  let ids = urls.iter().cloned().enumerate().map(|(i, u)| (u, i)).collect();
  let ctx = Ctx { urls, ids };
  let mut graph = ModuleGraph::new(graph_kind(&w["graph_kind"]));
  for r in w["roots"].as_array().unwrap() {
    graph.roots.insert(ctx.urls[r.as_u64().unwrap() as usize].clone());
  }
  graph.has_node_specifier = w["has_node_specifier"].as_bool().unwrap_or(false);
  if let Some(slots) = w["slots"].as_object() {
    for (k, s) in slots {
      let i: usize = k.parse().unwrap();
      let spec = ctx.urls[i].clone();
      match s["kind"].as_str().unwrap() {
        "pending" => graph.verif_insert_pending(
          spec,
          s["is_asset"].as_bool().unwrap_or(false),
        ),
        "err" => {
          let maybe_referrer = if s["has_referrer"].as_bool().unwrap_or(false) {
            Some(range(&ctx.urls[0], s["referrer_rid"].as_u64().unwrap_or(0)))
          } else {
            None
          };
          let kind = if s["missing"].as_bool().unwrap_or(false) {
            ModuleErrorKind::Missing {
              specifier: spec.clone(),
              maybe_referrer,
            }
          } else {
            ModuleErrorKind::Load {
              specifier: spec.clone(),
              maybe_referrer,
              err: ModuleLoadError::TooManyRedirects,
            }
          };
          graph.verif_insert_error(spec, kind.into_box());
        }
        "js" => {
          let maybe_types_dependency = s.get("types_dep").map(|td| TypesDependency {
            specifier: text_for(
              td["text"].as_u64().unwrap(),
              td["file_text"].as_bool().unwrap_or(false),
            ),
            dependency: ctx.resolution(i, &td["res"]),
          });
          #[cfg(feature = "fast_check")]
          let fast_check = s.get("fast_check").map(|fc| {
            if fc.get("error").is_some() {
              FastCheckTypeModuleSlot::Error(vec![])
            } else {
              FastCheckTypeModuleSlot::Module(Box::new(FastCheckTypeModule {
                dependencies: ctx.deps(i, &fc["deps"]),
                source: "".into(),
                source_map: "".into(),
                dts: None,
              }))
            }
          });
          #[cfg(not(feature = "fast_check"))]
          if s.get("fast_check").is_some() {
            panic!("world has fast-check data but the replay binary was built without the fast_check feature");
          }
          let m = JsModule {
            is_script: false,
            dependencies: ctx.deps(i, &s["deps"]),
            maybe_cache_info: None,
            mtime: None,
            source: ModuleTextSource::new_unknown("".into()),
            maybe_types_dependency,
            media_type: media_type(s["media_type"].as_str().unwrap()),
            specifier: spec.clone(),
            maybe_source_map_dependency: None,
            #[cfg(feature = "fast_check")]
            fast_check,
          };
          graph.verif_insert_module(spec, Module::Js(m));
        }
        "json" => graph.verif_insert_module(
          spec.clone(),
          Module::Json(JsonModule {
            specifier: spec,
            maybe_cache_info: None,
            source: ModuleTextSource::new_unknown("{}".into()),
            mtime: None,
            media_type: MediaType::Json,
          }),
        ),
        "wasm" => graph.verif_insert_module(
          spec.clone(),
          Module::Wasm(WasmModule {
            specifier: spec,
            mtime: None,
            dependencies: ctx.deps(i, &s["deps"]),
            source: Arc::from(vec![0u8, 1u8]),
            source_dts: "dts".into(),
            maybe_cache_info: None,
          }),
        ),
        "npm" => graph.verif_insert_module(
          spec.clone(),
          Module::Npm(NpmModule {
            specifier: spec,
            pkg_req_ref: deno_semver::npm::NpmPackageReqReference::from_str(
              "npm:verif@1",
            )
            .unwrap(),
          }),
        ),
        "node" => graph.verif_insert_node_module(spec),
        "external" => graph.verif_insert_module(
          spec.clone(),
          Module::External(ExternalModule {
            specifier: spec,
            maybe_cache_info: None,
            was_asset_load: s["was_asset_load"].as_bool().unwrap_or(false),
          }),
        ),
        o => panic!("slot kind {o}"),
      }
    }
  }
  if let Some(reds) = w["redirects"].as_object() {
    for (k, t) in reds {
      let i: usize = k.parse().unwrap();
      graph.redirects.insert(
        ctx.urls[i].clone(),
        ctx.urls[t.as_u64().unwrap() as usize].clone(),
      );
    }
  }
  for imp in w["imports"].as_array().map(|a| a.as_slice()).unwrap_or(&[]) {
    let r = imp["referrer"].as_u64().unwrap() as usize;
    graph.imports.insert(
      ctx.urls[r].clone(),
      GraphImport {
        dependencies: ctx.deps(0, &imp["deps"]),
      },
    );
  }
  (graph, ctx)
}

#[derive(Debug)]
struct CustomCheckJs {
  allowed: Vec<ModuleSpecifier>,
}
impl CheckJsResolver for CustomCheckJs {
  fn resolve(&self, specifier: &ModuleSpecifier) -> bool {
    self.allowed.contains(specifier)
  }
}

fn res_json(ctx: &Ctx, r: &Resolution) -> Value {
  match r {
    Resolution::None => Value::Null,
    Resolution::Ok(ok) => {
      json!({"ok": ctx.id(&ok.specifier), "rid": ok.range.range.start.line})
    }
    Resolution::Err(e) => json!({"err": true, "rid": e.range().range.start.line}),
  }
}

fn deps_json(ctx: &Ctx, deps: &IndexMap<String, Dependency>) -> Value {
  Value::Array(
    deps
      .iter()
      .map(|(k, d)| {
        json!({"text": k, "code": res_json(ctx, &d.maybe_code), "type": res_json(ctx, &d.maybe_type),
               "dynamic": d.is_dynamic, "deno_types": d.maybe_deno_types_specifier.is_some()})
      })
      .collect(),
  )
}

fn module_json(ctx: &Ctx, m: &Module) -> Value {
  match m {
    Module::Js(js) => {
      #[allow(unused_mut)]
      let mut v = json!({"kind": "js", "specifier": ctx.id(&js.specifier), "media_type": format!("{:?}", js.media_type),
        "deps": deps_json(ctx, &js.dependencies),
        "types_dep": js.maybe_types_dependency.as_ref().map(|t| json!({"text": t.specifier, "res": res_json(ctx, &t.dependency)}))});
      #[cfg(feature = "fast_check")]
      {
        v["fast_check"] = match &js.fast_check {
          None => Value::Null,
          Some(FastCheckTypeModuleSlot::Error(_)) => json!({"error": true}),
          Some(FastCheckTypeModuleSlot::Module(m)) => {
            json!({"deps": deps_json(ctx, &m.dependencies)})
          }
        };
      }
      v
    }
    Module::Json(j) => json!({"kind": "json", "specifier": ctx.id(&j.specifier)}),
    Module::Wasm(w) => {
      json!({"kind": "wasm", "specifier": ctx.id(&w.specifier), "deps": deps_json(ctx, &w.dependencies), "source_dts_len": w.source_dts.len()})
    }
    Module::Npm(n) => json!({"kind": "npm", "specifier": ctx.id(&n.specifier)}),
    Module::Node(n) => json!({"kind": "node", "specifier": ctx.id(&n.specifier)}),
    Module::External(e) => {
      json!({"kind": "external", "specifier": ctx.id(&e.specifier), "was_asset_load": e.was_asset_load})
    }
  }
}

fn module_error_json(ctx: &Ctx, e: &ModuleError) -> Value {
  let kind = match e.as_kind() {
    ModuleErrorKind::Load { .. } => "Load",
    ModuleErrorKind::Missing { .. } => "Missing",
    ModuleErrorKind::MissingDynamic { .. } => "MissingDynamic",
    ModuleErrorKind::Parse { .. } => "Parse",
    ModuleErrorKind::WasmParse { .. } => "WasmParse",
    ModuleErrorKind::UnsupportedMediaType { .. } => "UnsupportedMediaType",
    ModuleErrorKind::InvalidTypeAssertion { .. } => "InvalidTypeAssertion",
    ModuleErrorKind::UnsupportedImportAttributeType { .. } => {
      "UnsupportedImportAttributeType"
    }
    ModuleErrorKind::UnsupportedModuleTypeForSourcePhaseImport { .. } => {
      "UnsupportedModuleTypeForSourcePhaseImport"
    }
  };
  json!({"cat": "module", "kind": kind, "specifier": ctx.id(e.specifier()),
         "rid": e.maybe_referrer().map(|r| r.range.start.line)})
}

fn resolution_error_json(ctx: &Ctx, cat: &str, e: &ResolutionError) -> Value {
  let (kind, spec) = match e {
    ResolutionError::InvalidDowngrade { specifier, .. } => {
      ("InvalidDowngrade", Some(specifier))
    }
    ResolutionError::InvalidJsrHttpsTypesImport { specifier, .. } => {
      ("InvalidJsrHttpsTypesImport", Some(specifier))
    }
    ResolutionError::InvalidLocalImport { specifier, .. } => {
      ("InvalidLocalImport", Some(specifier))
    }
    ResolutionError::InvalidSpecifier { .. } => ("InvalidSpecifier", None),
    ResolutionError::ResolverError { .. } => ("ResolverError", None),
  };
  json!({"cat": cat, "kind": kind, "specifier": spec.map(|s| ctx.id(s)), "rid": e.range().range.start.line})
}

fn graph_error_json(ctx: &Ctx, e: &ModuleGraphError) -> Value {
  match e {
    ModuleGraphError::ModuleError(e) => module_error_json(ctx, e),
    ModuleGraphError::ResolutionError(e) => {
      resolution_error_json(ctx, "resolution", e)
    }
    ModuleGraphError::TypesResolutionError(e) => {
      resolution_error_json(ctx, "types_resolution", e)
    }
  }
}

fn dump_graph(ctx: &Ctx, g: &ModuleGraph) -> Value {
  let mut slots = serde_json::Map::new();
  for (spec, kind) in g.verif_slot_kinds() {
    let key = match ctx.ids.get(&spec) {
      Some(i) => i.to_string(),
      None => spec.to_string(),
    };
    let v = match kind {
      2 => json!({"kind": "pending"}),
      1 => match g.try_get(&spec) {
        // note: try_get follows redirects; look the error up among module_errors instead
        _ => {
          let e = g.module_errors().find(|e| e.specifier() == &spec);
          match e {
            Some(e) => json!({"kind": "err", "err": module_error_json(ctx, e)}),
            None => json!({"kind": "err"}),
          }
        }
      },
      _ => match g.modules().find(|m| m.specifier() == &spec) {
        Some(m) => module_json(ctx, m),
        None => json!({"kind": "module?"}),
      },
    };
    slots.insert(key, v);
  }
  let mut redirects = serde_json::Map::new();
  for (k, v) in &g.redirects {
    redirects.insert(
      match ctx.ids.get(k) {
        Some(i) => i.to_string(),
        None => k.to_string(),
      },
      ctx.id(v),
    );
  }
  json!({"graph_kind": format!("{:?}", g.graph_kind()), "roots": g.roots.iter().map(|r| ctx.id(r)).collect::<Vec<_>>(),
         "slots": slots, "redirects": redirects, "imports": g.imports.len(), "has_node_specifier": g.has_node_specifier})
}

fn ids_to_urls(ctx: &Ctx, v: &Value) -> Vec<ModuleSpecifier> {
  v.as_array()
    .map(|a| a.iter().map(|x| ctx.urls[x.as_u64().unwrap() as usize].clone()).collect())
    .unwrap_or_default()
}

fn run_op(ctx: &Ctx, graph: &mut ModuleGraph, op: &Value) -> Value {
  let name = op["op"].as_str().unwrap();
  let spec = |k: &str| ctx.urls[op[k].as_u64().unwrap() as usize].clone();
  match name {
    "walk" | "errors" | "validate" => {
      let roots = ids_to_urls(ctx, &op["roots"]);
      let custom = CustomCheckJs {
        allowed: match &op["check_js"] {
          Value::Array(a) => a
            .iter()
            .enumerate()
            .filter(|(_, b)| b.as_bool().unwrap_or(false))
            .map(|(i, _)| ctx.urls[i].clone())
            .collect(),
          _ => vec![],
        },
      };
      let check_js = match &op["check_js"] {
        Value::Bool(true) => CheckJsOption::True,
        Value::Bool(false) => CheckJsOption::False,
        _ => CheckJsOption::Custom(&custom),
      };
      let options = WalkOptions {
        check_js,
        follow_dynamic: op["follow_dynamic"].as_bool().unwrap(),
        kind: graph_kind(&op["kind"]),
        prefer_fast_check_graph: op["prefer_fast_check_graph"].as_bool().unwrap_or(false),
      };
      let mut it = graph.walk(roots.iter(), options);
      match name {
        "walk" => {
          let skip: Vec<u64> = op["skip_after"]
            .as_array()
            .map(|a| a.iter().map(|x| x.as_u64().unwrap()).collect())
            .unwrap_or_default();
          let mut out = vec![];
          let mut k = 0u64;
          while let Some((s, e)) = it.next() {
            out.push(match e {
              ModuleEntryRef::Module(m) => json!([ctx.id(s), "module", ctx.id(m.specifier())]),
              ModuleEntryRef::Err(e) => json!([ctx.id(s), "err", ctx.id(e.specifier())]),
              ModuleEntryRef::Redirect(t) => json!([ctx.id(s), "redirect", ctx.id(t)]),
            });
            if skip.contains(&k) {
              it.skip_previous_dependencies();
            }
            k += 1;
          }
          json!({"entries": out})
        }
        "errors" => {
          json!({"errors": it.errors().map(|e| graph_error_json(ctx, &e)).collect::<Vec<_>>()})
        }
        _ => match it.validate() {
          Ok(()) => json!({"ok": true}),
          Err(e) => json!({"ok": false, "error": graph_error_json(ctx, &e)}),
        },
      }
    }
    "valid" => match graph.valid() {
      Ok(()) => json!({"ok": true}),
      Err(e) => json!({"ok": false, "error": graph_error_json(ctx, &e)}),
    },
    "resolve" => json!({"result": ctx.id(graph.resolve(&spec("spec")))}),
    "get" => json!({"result": graph.get(&spec("spec")).map(|m| ctx.id(m.specifier()))}),
    "contains" => json!({"result": graph.contains(&spec("spec"))}),
    "try_get" | "try_get_prefer_types" => {
      let s = spec("spec");
      let r = if name == "try_get" {
        graph.try_get(&s)
      } else {
        graph.try_get_prefer_types(&s)
      };
      match r {
        Ok(m) => json!({"ok": m.map(|m| ctx.id(m.specifier()))}),
        Err(e) => json!({"err": ctx.id(e.specifier())}),
      }
    }
    "specifiers" => json!({"entries": graph.specifiers().map(|(s, r)| match r {
      Ok(m) => json!([ctx.id(s), "ok", ctx.id(m.specifier())]),
      Err(e) => json!([ctx.id(s), "err", ctx.id(e.specifier())]),
    }).collect::<Vec<_>>()}),
    "resolve_dependency" => {
      let text = text_for(op["text"].as_u64().unwrap(), op["file_text"].as_bool().unwrap_or(false));
      json!({"result": graph
        .resolve_dependency(&text, &spec("referrer"), op["prefer_types"].as_bool().unwrap())
        .map(|s| ctx.id(s))})
    }
    "prune_types" => {
      graph.prune_types();
      let mut inner = vec![];
      for sub in op["then"].as_array().map(|a| a.as_slice()).unwrap_or(&[]) {
        let mut g2 = graph.clone();
        inner.push(run_op(ctx, &mut g2, sub));
      }
      json!({"graph": dump_graph(ctx, graph), "then": inner})
    }
    "segment" => {
      let roots = ids_to_urls(ctx, &op["roots"]);
      let seg = graph.segment(&roots);
      let mut inner = vec![];
      for sub in op["then"].as_array().map(|a| a.as_slice()).unwrap_or(&[]) {
        let mut seg2 = seg.clone();
        inner.push(run_op(ctx, &mut seg2, sub));
      }
      json!({"graph": dump_graph(ctx, &seg), "then": inner})
    }
    "add_redirect" => {
      // Builder::add_redirect through the cfg(deno_graph_verif) hook (a builder is created on the graph and dropped again)
      let loader = deno_graph::source::MemoryLoader::new(Vec::<(String, deno_graph::source::Source<String, String>)>::new(), vec![]);
      let r = ids_to_urls(ctx, &json!([op["requested"].clone()])).remove(0);
      let t = ids_to_urls(ctx, &json!([op["target"].clone()])).remove(0);
      graph.verif_add_redirect(&loader, BuildOptions::default(), r, t);
      json!({"graph": dump_graph(ctx, graph)})
    }
    "dump" => json!({"graph": dump_graph(ctx, graph)}),
    o => json!({"error": format!("unknown op {o}")}),
  }
}

fn main() {
  let path = std::env::args().nth(1).expect("usage: verif_replay <world.json>");
  let input: Value =
    serde_json::from_str(&std::fs::read_to_string(path).unwrap()).unwrap();
  if input["world"].get("build_probes").is_some() {
    println!("{}", probes::run());
    return;
  }
  if input["world"].get("fill_deps").is_some() {
    if input["world"].get("load_request").is_some() {
      println!("{}", filldeps::run_load_request(&input));
      return;
    }
    if input["world"].get("edges").is_some() {
      println!("{}", filldeps::run_edges(&input));
      return;
    }
    println!("{}", filldeps::run(&input));
    return;
  }
  if input["world"].get("positions").is_some() {
    println!("{}", positions::run(&input));
    return;
  }
  if input["world"].get("packages").is_some() {
    println!("{}", packages::run(&input));
    return;
  }
  // a file may hold one case or a list of cases {world, ops}
  let cases: Vec<Value> = match input.get("cases") {
    Some(Value::Array(a)) => a.clone(),
    _ => vec![input.clone()],
  };
  let mut results = vec![];
  for case in &cases {
    let (graph, ctx) = build_graph(&case["world"]);
    let mut outs = vec![];
    for op in case["ops"].as_array().unwrap() {
      // every op runs on a fresh copy of the world unless it sets "in_place"
      let r = std::panic::catch_unwind(std::panic::AssertUnwindSafe(|| {
        let mut g = graph.clone();
        run_op(&ctx, &mut g, op)
      }));
      outs.push(match r {
        Ok(v) => v,
        Err(_) => json!({"panic": true}),
      });
    }
    results.push(json!({"outputs": outs}));
  }
  if input.get("cases").is_some() {
    println!("{}", json!({"cases": results}));
  } else {
    println!("{}", results[0]);
  }
}
