//! C01 replay: the dependency records of a module, computed by the real crate (`parse_module` -> `fill_module_dependencies`)
//! from an arbitrary list of dependency descriptors handed in through a custom `ModuleAnalyzer`, under a table-driven `Resolver`.
use std::collections::HashMap;
use std::sync::Arc;

use deno_graph::analysis::*;
use deno_graph::source::*;
use deno_graph::*;
use serde_json::Value;
use serde_json::json;

pub struct EmptyAnalyzer;
#[async_trait::async_trait(?Send)]
impl ModuleAnalyzer for EmptyAnalyzer {
  async fn analyze(&self, _s: &ModuleSpecifier, _t: Arc<str>, _m: MediaType) -> Result<ModuleInfo, deno_error::JsErrorBox> {
    Ok(ModuleInfo::default())
  }
}
struct Analyzer(ModuleInfo);
#[async_trait::async_trait(?Send)]
impl ModuleAnalyzer for Analyzer {
  async fn analyze(
    &self,
    _specifier: &ModuleSpecifier,
    _source: Arc<str>,
    _media_type: MediaType,
  ) -> Result<ModuleInfo, deno_error::JsErrorBox> {
    Ok(self.0.clone())
  }
}

/// (text, kind 0 exec / 1 types, attribute id 0 = none) -> Some(target) | None (error)
#[derive(Debug)]
struct TableResolver(HashMap<(String, u64, u64), Option<u64>>);
impl TableResolver {
  fn look(&self, text: &str, kind: ResolutionKind, attr: u64) -> Result<ModuleSpecifier, ResolveError> {
    let k = if kind.is_types() { 1 } else { 0 };
    match self.0.get(&(text.to_string(), k, attr)) {
      Some(Some(t)) => Ok(ModuleSpecifier::parse(&format!("https://t/{t}")).unwrap()),
      _ => Err(ResolveError::Other(deno_error::JsErrorBox::generic("verif"))),
    }
  }
}
impl Resolver for TableResolver {
  fn resolve(&self, text: &str, _r: &Range, kind: ResolutionKind) -> Result<ModuleSpecifier, ResolveError> {
    self.look(text, kind, 0)
  }
  fn resolve_attribute_type_import(
    &self,
    text: &str,
    _r: &Range,
    kind: ResolutionKind,
    attribute_type: &str,
  ) -> Option<Result<ModuleSpecifier, ResolveError>> {
    let a: u64 = attribute_type.trim_start_matches('a').parse().unwrap();
    Some(self.look(text, kind, a + 1))
  }
}

fn attrs(v: &Value) -> ImportAttributes {
  match v.as_u64() {
    None => ImportAttributes::None,
    Some(a) => {
      let mut m = HashMap::new();
      m.insert("type".to_string(), ImportAttribute::Known(format!("a{a}")));
      ImportAttributes::Known(m)
    }
  }
}
fn text_name(t: u64, nspec: u64) -> String {
  if t < nspec { format!("./s{t}") } else { format!("./dt{}", t - nspec) }
}

pub fn run(input: &Value) -> Value {
  let w = &input["world"];
  let nspec = w["nspec"].as_u64().unwrap();
  let mut table = HashMap::new();
  for e in w["resolver"].as_array().unwrap() {
    table.insert(
      (text_name(e[0].as_u64().unwrap(), nspec), e[1].as_u64().unwrap(), e[2].as_u64().unwrap()),
      e[3].as_u64(),
    );
  }
  let resolver = TableResolver(table);
  let static_kinds = [
    StaticDependencyKind::Import, StaticDependencyKind::ImportDefer, StaticDependencyKind::ImportSource, StaticDependencyKind::ImportType,
    StaticDependencyKind::ImportEquals, StaticDependencyKind::Export, StaticDependencyKind::ExportType, StaticDependencyKind::ExportEquals,
    StaticDependencyKind::MaybeTsModuleAugmentation,
  ];
  let dyn_kinds = [DynamicDependencyKind::Import, DynamicDependencyKind::ImportDefer, DynamicDependencyKind::ImportSource, DynamicDependencyKind::Require];
  let mut deps = vec![];
  for d in w["descriptors"].as_array().unwrap() {
    let types_specifier = d["deno_types"].as_u64().map(|t| SpecifierWithRange {
      text: text_name(t + nspec, nspec),
      range: PositionRange::zeroed(),
    });
    let text = text_name(d["text"].as_u64().unwrap(), nspec);
    if d["static"].as_bool().unwrap() {
      deps.push(DependencyDescriptor::Static(StaticDependencyDescriptor {
        kind: static_kinds[d["skind"].as_u64().unwrap() as usize],
        types_specifier,
        specifier: text,
        specifier_range: PositionRange::zeroed(),
        is_side_effect: d["side_effect"].as_bool().unwrap(),
        import_attributes: attrs(&d["type_attr"]),
      }));
    } else {
      deps.push(DependencyDescriptor::Dynamic(DynamicDependencyDescriptor {
        kind: dyn_kinds[d["dkind"].as_u64().unwrap() as usize],
        types_specifier,
        argument: if d["arg_is_string"].as_bool().unwrap() { DynamicArgument::String(text) } else { DynamicArgument::Expr },
        argument_range: PositionRange::zeroed(),
        import_attributes: attrs(&d["type_attr"]),
      }));
    }
  }
  let info = ModuleInfo { dependencies: deps, ..Default::default() };
  let ext = match w["media_type"].as_str().unwrap() {
    "JavaScript" => "js", "Jsx" => "jsx", "Mjs" => "mjs", "Cjs" => "cjs", "TypeScript" => "ts", "Mts" => "mts", "Cts" => "cts",
    "Dts" => "d.ts", "Dmts" => "d.mts", "Dcts" => "d.cts", "Tsx" => "tsx", o => panic!("media type {o}"),
  };
  let kind = match w["graph_kind"].as_u64().unwrap() { 0 => GraphKind::All, 1 => GraphKind::CodeOnly, _ => GraphKind::TypesOnly };
  let analyzer = Analyzer(info);
  let module = futures::executor::block_on(parse_module(ParseModuleOptions {
    graph_kind: kind,
    specifier: ModuleSpecifier::parse(&format!("file:///m.{ext}")).unwrap(),
    maybe_headers: None,
    mtime: None,
    content: Arc::from(b"".to_vec()),
    file_system: &NullFileSystem,
    jsr_url_provider: Default::default(),
    maybe_resolver: Some(&resolver),
    module_analyzer: &analyzer,
  }))
  .unwrap();
  let res = |r: &Resolution| match r {
    Resolution::None => json!([0, 0]),
    Resolution::Ok(ok) => json!([1, ok.specifier.path().trim_start_matches('/').parse::<u64>().unwrap()]),
    Resolution::Err(_) => json!([2, 0]),
  };
  let mut out = vec![];
  for (text, dep) in module.dependencies() {
    out.push(json!({"text": text, "code": res(&dep.maybe_code), "type": res(&dep.maybe_type), "dyn": dep.is_dynamic,
      "attr": dep.maybe_attribute_type, "nimports": dep.imports.len(), "deno_types": dep.maybe_deno_types_specifier.is_some()}));
  }
  json!({"outputs": [{"recorded": out}]})
}

/// C01 edges replay: a full `ModuleGraph::build` of one root whose dependency records are dictated through a custom
/// analyzer + resolver; observes which targets the builder loaded and what it left in the root's dependency records.
pub fn run_edges(input: &Value) -> Value {
  let w = &input["world"];
  let kind = match w["graph_kind"].as_u64().unwrap() { 0 => GraphKind::All, 1 => GraphKind::CodeOnly, _ => GraphKind::TypesOnly };
  let mut table = HashMap::new();
  let mut deps = vec![];
  for (d, e) in w["deps"].as_array().unwrap().iter().enumerate() {
    if !e["p"].as_bool().unwrap() { continue; }
    let (ck, ct, tk, tt) = (e["ck"].as_u64().unwrap(), e["ct"].as_u64().unwrap(), e["tk"].as_u64().unwrap(), e["tt"].as_u64().unwrap());
    let text = format!("./e{d}");
    let dynamic = e["dyn"].as_bool().unwrap();
    if ck == 0 {
      // type-only import: no code resolution, the type target is the resolver's Types answer for the text
      table.insert((text.clone(), 1, 0), if tk == 1 { Some(tt) } else { None });
      deps.push(DependencyDescriptor::Static(StaticDependencyDescriptor {
        kind: StaticDependencyKind::ImportType, types_specifier: None, specifier: text, specifier_range: PositionRange::zeroed(),
        is_side_effect: false, import_attributes: ImportAttributes::None }));
      continue;
    }
    table.insert((text.clone(), 0, 0), if ck == 1 { Some(ct) } else { None });
    let types_specifier = if tk != 0 {
      table.insert((format!("./t{d}"), 1, 0), if tk == 1 { Some(tt) } else { None });
      Some(SpecifierWithRange { text: format!("./t{d}"), range: PositionRange::zeroed() })
    } else {
      // no separate type target: the Types answer equals the code answer, so no type resolution is recorded
      table.insert((text.clone(), 1, 0), if ck == 1 { Some(ct) } else { None });
      None
    };
    if dynamic {
      deps.push(DependencyDescriptor::Dynamic(DynamicDependencyDescriptor {
        kind: DynamicDependencyKind::Import, types_specifier, argument: DynamicArgument::String(text), argument_range: PositionRange::zeroed(),
        import_attributes: ImportAttributes::None }));
    } else {
      deps.push(DependencyDescriptor::Static(StaticDependencyDescriptor {
        kind: StaticDependencyKind::Import, types_specifier, specifier: text, specifier_range: PositionRange::zeroed(),
        is_side_effect: false, import_attributes: ImportAttributes::None }));
    }
  }
  #[derive(Debug)]
  struct R(HashMap<(String, u64, u64), Option<u64>>);
  impl Resolver for R {
    fn resolve(&self, text: &str, _r: &Range, kind: ResolutionKind) -> Result<ModuleSpecifier, ResolveError> {
      match self.0.get(&(text.to_string(), if kind.is_types() { 1 } else { 0 }, 0)) {
        Some(Some(t)) => Ok(ModuleSpecifier::parse(&format!("file:///u{t}.ts")).unwrap()),
        _ => Err(ResolveError::Other(deno_error::JsErrorBox::generic("verif"))),
      }
    }
  }
  struct A(ModuleInfo);
  #[async_trait::async_trait(?Send)]
  impl ModuleAnalyzer for A {
    async fn analyze(&self, s: &ModuleSpecifier, _t: Arc<str>, _m: MediaType) -> Result<ModuleInfo, deno_error::JsErrorBox> {
      Ok(if s.as_str() == "file:///root.ts" { self.0.clone() } else { ModuleInfo::default() })
    }
  }
  let resolver = R(table);
  let analyzer = A(ModuleInfo { dependencies: deps, ..Default::default() });
  let mut sources: Vec<(String, Source<String, String>)> = vec![("file:///root.ts".to_string(), Source::Module { specifier: "file:///root.ts".to_string(), maybe_headers: None, content: "".to_string() })];
  for u in 0..3 {
    let s = format!("file:///u{u}.ts");
    sources.push((s.clone(), Source::Module { specifier: s, maybe_headers: None, content: "".to_string() }));
  }
  let loader = MemoryLoader::new(sources, vec![]);
  let mut graph = ModuleGraph::new(kind);
  futures::executor::block_on(graph.build(
    vec![ModuleSpecifier::parse("file:///root.ts").unwrap()],
    vec![],
    &loader,
    BuildOptions {
      is_dynamic: w["in_dynamic_branch"].as_bool().unwrap(),
      skip_dynamic_deps: w["skip_dynamic_deps"].as_bool().unwrap(),
      resolver: Some(&resolver),
      module_analyzer: &analyzer,
      ..Default::default()
    },
  ));
  let requested: Vec<u64> = (0..3u64).filter(|u| graph.contains(&ModuleSpecifier::parse(&format!("file:///u{u}.ts")).unwrap())).collect();
  let root = graph.get(&ModuleSpecifier::parse("file:///root.ts").unwrap()).unwrap();
  let tag = |r: &Resolution| match r { Resolution::None => 0, Resolution::Ok(_) => 1, Resolution::Err(_) => 2 };
  let mut recs = serde_json::Map::new();
  for (text, dep) in root.dependencies() {
    recs.insert(text.clone(), json!([tag(&dep.maybe_code), tag(&dep.maybe_type)]));
  }
  json!({"outputs": [{"requested": requested, "records": recs}]})
}


/// C01 load kernel replay: one import of X (optionally `with { type: K }`) from the root of a real build; reports what the graph
/// holds for X afterwards.
pub fn run_load_request(input: &Value) -> Value {
  let w = &input["world"];
  let b = |k: &str| w[k].as_bool().unwrap();
  let x = match w["load_kind"].as_str().unwrap() {
    "Url" => "https://h/x.txt",
    "Node" => "node:fs",
    "Jsr" => "jsr:@a/b",
    o => panic!("load kind {o} is not realisable"),
  };
  let attrs = match w["attribute"].as_str() {
    Some(k) => ImportAttributes::Known(HashMap::from([("type".to_string(), ImportAttribute::Known(k.to_string()))])),
    None => ImportAttributes::None,
  };
  let dep = DependencyDescriptor::Static(StaticDependencyDescriptor {
    kind: StaticDependencyKind::Import, types_specifier: None, specifier: x.to_string(), specifier_range: PositionRange::zeroed(),
    is_side_effect: false, import_attributes: attrs });
  struct A(ModuleInfo);
  #[async_trait::async_trait(?Send)]
  impl ModuleAnalyzer for A {
    async fn analyze(&self, s: &ModuleSpecifier, _t: Arc<str>, _m: MediaType) -> Result<ModuleInfo, deno_error::JsErrorBox> {
      Ok(if s.as_str() == "file:///root.ts" { self.0.clone() } else { ModuleInfo::default() })
    }
  }
  let analyzer = A(ModuleInfo { dependencies: vec![dep], ..Default::default() });
  let sources: Vec<(String, Source<String, String>)> = vec![
    ("file:///root.ts".to_string(), Source::Module { specifier: "file:///root.ts".to_string(), maybe_headers: None, content: "".to_string() }),
    ("https://h/x.txt".to_string(), Source::Module { specifier: "https://h/x.txt".to_string(), maybe_headers: None, content: "hello".to_string() }),
  ];
  let loader = MemoryLoader::new(sources, vec![]);
  let mut graph = ModuleGraph::new(GraphKind::All);
  futures::executor::block_on(graph.build(
    vec![ModuleSpecifier::parse("file:///root.ts").unwrap()],
    vec![],
    &loader,
    BuildOptions {
      is_dynamic: b("in_dynamic_branch"),
      unstable_bytes_imports: b("unstable_bytes_imports"),
      unstable_text_imports: b("unstable_text_imports"),
      unstable_css_imports: b("unstable_css_imports"),
      passthrough_jsr_specifiers: b("passthrough_jsr_specifiers"),
      module_analyzer: &analyzer,
      ..Default::default()
    },
  ));
  let xs = ModuleSpecifier::parse(x).unwrap();
  let class = match graph.try_get(&xs) {
    Ok(Some(Module::External(e))) => if e.was_asset_load { "asset".to_string() } else { "external".to_string() },
    Ok(Some(Module::Node(_))) => "node".to_string(),
    Ok(Some(_)) => "module".to_string(),
    Ok(None) => "absent".to_string(),
    Err(e) => { let d = format!("{:?}", e.as_kind()); format!("err:{}", d.split(|c: char| !c.is_alphanumeric()).next().unwrap()) }
  };
  json!({"outputs": [{"target": class}]})
}
