//! C05 replay: one remote import loaded through a real build with a scripted Loader that records the LoadOptions it is given.
use std::cell::RefCell;
use std::collections::HashMap;
use std::sync::Arc;

use deno_graph::analysis::*;
use deno_graph::source::*;
use deno_graph::*;
use futures::FutureExt;
use serde_json::Value;
use serde_json::json;

struct ScriptedLoader {
  answers: Vec<String>,
  calls: RefCell<Vec<Value>>,
  max_redirects: usize,
}

const X: &str = "https://h/x.ts";
const Y: &str = "https://h/y.ts";

impl ScriptedLoader {
  fn note(&self, entry: &str, options: &LoadOptions) -> usize {
    let mut c = self.calls.borrow_mut();
    c.push(json!({"entry": entry, "cache_setting": format!("{:?}", options.cache_setting), "checksum": options.maybe_checksum.is_some()}));
    c.len() - 1
  }
  fn err(&self, a: &str) -> LoadError {
    if a == "ChecksumError" {
      LoadError::ChecksumIntegrity(ChecksumIntegrityError { actual: "a".to_string(), expected: "b".to_string() })
    } else {
      LoadError::Other(Arc::new(deno_error::JsErrorBox::generic("loader error")))
    }
  }
}

impl Loader for ScriptedLoader {
  fn max_redirects(&self) -> usize { self.max_redirects }
  fn load(&self, specifier: &ModuleSpecifier, options: LoadOptions) -> LoadFuture {
    let s = specifier.as_str().to_string();
    if s != X {
      // the root and the redirect target are always served
      let specifier = specifier.clone();
      return async move { Ok(Some(LoadResponse::Module { content: Arc::from(Vec::<u8>::new()), mtime: None, specifier, maybe_headers: None })) }.boxed_local();
    }
    let i = self.note("load", &options);
    let a = self.answers.get(i).cloned().unwrap_or_else(|| "NotFound".to_string());
    let r: LoadResult = match a.as_str() {
      "Module" => Ok(Some(LoadResponse::Module { content: Arc::from(Vec::<u8>::new()), mtime: None, specifier: specifier.clone(), maybe_headers: None })),
      "Redirect" => Ok(Some(LoadResponse::Redirect { specifier: ModuleSpecifier::parse(Y).unwrap() })),
      "External" => Ok(Some(LoadResponse::External { specifier: specifier.clone() })),
      "NotFound" => Ok(None),
      o => Err(self.err(o)),
    };
    async move { r }.boxed_local()
  }
  fn ensure_cached(&self, specifier: &ModuleSpecifier, options: LoadOptions) -> EnsureCachedFuture {
    if specifier.as_str() != X {
      return async move { Ok(Some(CacheResponse::Cached)) }.boxed_local();
    }
    let i = self.note("ensure_cached", &options);
    let a = self.answers.get(i).cloned().unwrap_or_else(|| "NotFound".to_string());
    let r: EnsureCachedResult = match a.as_str() {
      "Module" | "External" => Ok(Some(CacheResponse::Cached)),
      "Redirect" => Ok(Some(CacheResponse::Redirect { specifier: ModuleSpecifier::parse(Y).unwrap() })),
      "NotFound" => Ok(None),
      o => Err(self.err(o)),
    };
    async move { r }.boxed_local()
  }
}

pub fn run_op(op: &Value) -> Value {
  let asset = op["asset"].as_bool().unwrap();
  let attrs = if asset {
    ImportAttributes::Known(HashMap::from([("type".to_string(), ImportAttribute::Known("text".to_string()))]))
  } else { ImportAttributes::None };
  let dep = DependencyDescriptor::Static(StaticDependencyDescriptor {
    kind: StaticDependencyKind::Import, types_specifier: None, specifier: X.to_string(), specifier_range: PositionRange::zeroed(),
    is_side_effect: false, import_attributes: attrs });
  struct A(ModuleInfo);
  #[async_trait::async_trait(?Send)]
  impl ModuleAnalyzer for A {
    async fn analyze(&self, s: &ModuleSpecifier, _t: Arc<str>, _m: MediaType) -> Result<ModuleInfo, deno_error::JsErrorBox> {
      Ok(if s.as_str() == "file:///root.ts" { self.0.clone() } else { ModuleInfo::default() })
    }
  }
  let analyzer = A(ModuleInfo { dependencies: vec![dep], ..Default::default() });
  let loader = ScriptedLoader {
    answers: op["answers"].as_array().unwrap().iter().map(|a| a.as_str().unwrap().to_string()).collect(),
    calls: RefCell::new(vec![]),
    max_redirects: op["max_redirects"].as_u64().unwrap() as usize,
  };
  let mut locker = HashMapLocker::default();
  if op["checksum_known"].as_bool().unwrap() {
    locker.set_remote_checksum(&ModuleSpecifier::parse(X).unwrap(), LoaderChecksum::new("0".repeat(64)));
  }
  let mut graph = ModuleGraph::new(GraphKind::All);
  futures::executor::block_on(graph.build(
    vec![ModuleSpecifier::parse("file:///root.ts").unwrap()],
    vec![],
    &loader,
    BuildOptions {
      unstable_text_imports: true,
      module_analyzer: &analyzer,
      locker: Some(&mut locker),
      ..Default::default()
    },
  ));
  let xs = ModuleSpecifier::parse(X).unwrap();
  let result = if graph.redirects.contains_key(&xs) {
    "redirect".to_string()
  } else {
    match graph.try_get(&xs) {
      Ok(Some(Module::External(_))) => "external".to_string(),
      Ok(Some(_)) => "module".to_string(),
      Ok(None) => "absent".to_string(),
      Err(e) => {
        let name = |d: String| d.split(|c: char| !c.is_alphanumeric()).next().unwrap().to_string();
        match e.as_kind() {
          ModuleErrorKind::Load { err, .. } => format!("err:Load:{}", name(format!("{:?}", err))),
          k => format!("err:{}", name(format!("{:?}", k))),
        }
      }
    }
  };
  let calls: Vec<Value> = loader.calls.borrow().iter().map(|c| json!({"cache_setting": c["cache_setting"], "checksum": c["checksum"]})).collect();
  json!({"calls": calls, "result": result})
}
