//! C05 replay: one remote import loaded through a real build with a scripted Loader that records the LoadOptions it is given.
use std::cell::RefCell;
use std::collections::HashMap;
use std::str::FromStr;
use std::sync::Arc;

use deno_graph::analysis::*;
use deno_graph::source::*;
use deno_graph::*;
use futures::FutureExt;
use serde_json::Value;
use serde_json::json;

struct ScriptedLoader {
  /// headers served with a Module answer
  headers: Option<HashMap<String, String>>,
  /// content served for a Module answer
  content: Vec<u8>,
  x: &'static str,
  /// None: the version manifest is not served; Some(json): served
  version_meta: Option<String>,
  answers: Vec<String>,
  calls: RefCell<Vec<Value>>,
  max_redirects: usize,
}

const PLAIN_X: &str = "https://h/x.ts";
const REG_X: &str = "https://jsr.io/@a/b/1.0.0/mod.ts";
const Y: &str = "https://h/y.ts";
const PKG_META: &str = "https://jsr.io/@a/b/meta.json";
const VER_META: &str = "https://jsr.io/@a/b/1.0.0_meta.json";

impl ScriptedLoader {
  fn note(&self, entry: &str, options: &LoadOptions) -> usize {
    let mut c = self.calls.borrow_mut();
    c.push(json!({"entry": entry, "cache_setting": format!("{:?}", options.cache_setting), "checksum": options.maybe_checksum.is_some()}));
    c.len() - 1
  }
  fn err(&self, a: &str) -> LoadError {
    if a == "ChecksumError" {
      LoadError::ChecksumIntegrity(ChecksumIntegrityError { actual: "a".to_string(), expected: "b".to_string() })
    } else {
      LoadError::Other(Arc::new(deno_error::JsErrorBox::generic("loader error")))
    }
  }
}

impl Loader for ScriptedLoader {
  fn max_redirects(&self) -> usize { self.max_redirects }
  fn load(&self, specifier: &ModuleSpecifier, options: LoadOptions) -> LoadFuture {
    let s = specifier.as_str().to_string();
    if s == PKG_META || s == VER_META {
      let body = if s == PKG_META { Some(r#"{"versions":{"1.0.0":{}}}"#.to_string()) } else { self.version_meta.clone() };
      let specifier = specifier.clone();
      return async move {
        Ok(body.map(|b| LoadResponse::Module { content: Arc::from(b.into_bytes()), mtime: None, specifier, maybe_headers: None }))
      }.boxed_local();
    }
    if s != self.x {
      // the root and the redirect target are always served
      let specifier = specifier.clone();
      return async move { Ok(Some(LoadResponse::Module { content: Arc::from(Vec::<u8>::new()), mtime: None, specifier, maybe_headers: None })) }.boxed_local();
    }
    let i = self.note("load", &options);
    let a = self.answers.get(i).cloned().unwrap_or_else(|| "NotFound".to_string());
    let r: LoadResult = match a.as_str() {
      "Module" => Ok(Some(LoadResponse::Module { content: Arc::from(self.content.clone()), mtime: None, specifier: specifier.clone(), maybe_headers: self.headers.clone() })),
      "Redirect" => Ok(Some(LoadResponse::Redirect { specifier: ModuleSpecifier::parse(Y).unwrap() })),
      "SelfRedirect" => Ok(Some(LoadResponse::Redirect { specifier: specifier.clone() })),
      "External" => Ok(Some(LoadResponse::External { specifier: specifier.clone() })),
      "NotFound" => Ok(None),
      o => Err(self.err(o)),
    };
    async move { r }.boxed_local()
  }
  fn ensure_cached(&self, specifier: &ModuleSpecifier, options: LoadOptions) -> EnsureCachedFuture {
    if specifier.as_str() != self.x {
      return async move { Ok(Some(CacheResponse::Cached)) }.boxed_local();
    }
    let i = self.note("ensure_cached", &options);
    let a = self.answers.get(i).cloned().unwrap_or_else(|| "NotFound".to_string());
    let r: EnsureCachedResult = match a.as_str() {
      "Module" | "External" => Ok(Some(CacheResponse::Cached)),
      "Redirect" => Ok(Some(CacheResponse::Redirect { specifier: ModuleSpecifier::parse(Y).unwrap() })),
      "NotFound" => Ok(None),
      o => Err(self.err(o)),
    };
    async move { r }.boxed_local()
  }
}

/// Runs spawned background tasks inline (the default executor needs a tokio runtime).
struct InlineExecutor;
impl deno_graph::Executor for InlineExecutor {
  fn execute(&self, fut: std::pin::Pin<Box<dyn std::future::Future<Output = ()> + 'static>>) -> std::pin::Pin<Box<dyn std::future::Future<Output = ()> + 'static>> { fut }
}

pub fn run_op(op: &Value) -> Value {
  let asset = op["asset"].as_bool().unwrap();
  let attrs = if asset {
    ImportAttributes::Known(HashMap::from([("type".to_string(), ImportAttribute::Known("text".to_string()))]))
  } else if op["json_attr"].as_bool().unwrap_or(false) {
    ImportAttributes::Known(HashMap::from([("type".to_string(), ImportAttribute::Known("json".to_string()))]))
  } else { ImportAttributes::None };
  // route: "plain" (an ordinary https module), "registry_url" (an https URL into the registry: the version manifest is fetched
  // first), "jsr_specifier" (a jsr: import: the file is loaded with embedded version info)
  let route = op["route"].as_str().unwrap_or("plain");
  let x: &'static str = if route == "plain" { PLAIN_X } else { REG_X };
  let import = if route == "jsr_specifier" { "jsr:@a/b@1.0.0" } else { x };
  let version_meta = if op["manifest_load_ok"].as_bool().unwrap_or(true) {
    let entry = if op["manifest_covers_file"].as_bool().unwrap_or(true) {
      let ck = if op["manifest_checksum_usable"].as_bool().unwrap_or(true) { format!("sha256-{}", "1".repeat(64)) } else { "md5-0".to_string() };
      format!(r#""/mod.ts":{{"size":0,"checksum":"{ck}"}}"#)
    } else { String::new() };
    let mg2 = if op["embedded_info"].as_bool().unwrap_or(false) { r#","moduleGraph2":{"/mod.ts":{}}"# } else { "" };
    Some(format!(r#"{{"exports":{{".":"./mod.ts"}},"manifest":{{{entry}}}{mg2}}}"#))
  } else { None };
  let dep = DependencyDescriptor::Static(StaticDependencyDescriptor {
    kind: StaticDependencyKind::Import, types_specifier: None, specifier: import.to_string(), specifier_range: PositionRange::zeroed(),
    is_side_effect: false, import_attributes: attrs });
  struct A(ModuleInfo);
  #[async_trait::async_trait(?Send)]
  impl ModuleAnalyzer for A {
    async fn analyze(&self, s: &ModuleSpecifier, _t: Arc<str>, _m: MediaType) -> Result<ModuleInfo, deno_error::JsErrorBox> {
      Ok(if s.as_str() == "file:///root.ts" { self.0.clone() } else { ModuleInfo::default() })
    }
  }
  let analyzer = A(ModuleInfo { dependencies: vec![dep], ..Default::default() });
  let utf16 = op["headers_charset"].as_bool().unwrap_or(false);
  let served: Vec<u8> = if op["content_bom"].as_bool().unwrap_or(false) { vec![0xEF, 0xBB, 0xBF, b'1'] } else if utf16 { vec![0x31, 0x00] } else { vec![] };
  let loader = ScriptedLoader {
    headers: if utf16 { Some(HashMap::from([("content-type".to_string(), "application/typescript; charset=utf-16le".to_string())])) } else { None },
    content: served.clone(),
    x, version_meta,
    answers: op["answers"].as_array().unwrap().iter().map(|a| a.as_str().unwrap().to_string()).collect(),
    calls: RefCell::new(vec![]),
    max_redirects: op["max_redirects"].as_u64().unwrap() as usize,
  };
  let mut locker = HashMapLocker::default();
  if op["checksum_known"].as_bool().unwrap() {
    locker.set_remote_checksum(&ModuleSpecifier::parse(x).unwrap(), LoaderChecksum::new("0".repeat(64)));
  }
  let mut graph = ModuleGraph::new(GraphKind::All);
  futures::executor::block_on(graph.build(
    vec![ModuleSpecifier::parse("file:///root.ts").unwrap()],
    vec![],
    &loader,
    BuildOptions {
      unstable_text_imports: true,
      module_analyzer: &analyzer,
      locker: Some(&mut locker),
      executor: &InlineExecutor,
      ..Default::default()
    },
  ));
  let xs = ModuleSpecifier::parse(x).unwrap();
  let err_name = |e: &ModuleError| {
    let name = |d: String| d.split(|c: char| !c.is_alphanumeric()).next().unwrap().to_string();
    match e.as_kind() {
      ModuleErrorKind::Load { err, .. } => format!("err:Load:{}", name(format!("{:?}", err))),
      k => format!("err:{}", name(format!("{:?}", k))),
    }
  };
  // an error is stored under the error's own specifier with a redirect from the requested one: look through redirects first
  let result = match graph.try_get(&xs) {
    Err(e) => err_name(e),
    Ok(_) if graph.redirects.contains_key(&xs) => "redirect".to_string(),
    Ok(Some(Module::External(_))) => "external".to_string(),
    Ok(Some(_)) => "module".to_string(),
    Ok(None) => "absent".to_string(),
  };
  let err_has_referrer = match graph.try_get(&xs) {
    Err(e) => match e.as_kind() {
      ModuleErrorKind::Load { maybe_referrer, .. } | ModuleErrorKind::Missing { maybe_referrer, .. } => Some(maybe_referrer.is_some()),
      _ => None,
    },
    _ => None,
  };
  let calls: Vec<Value> = loader.calls.borrow().iter().map(|c| json!({"cache_setting": c["cache_setting"], "checksum": c["checksum"]})).collect();
  if op.get("source_report").is_some() {
    // what the graph stores for the file after the deferred content load: the decoded text and whether the original bytes it hands out are the served ones
    return match graph.try_get(&xs) {
      Ok(Some(Module::Js(m))) => json!({"text_is_the_decoding": &*m.source.text == "1", "original_bytes_are_the_loaded_bytes": m.source.try_get_original_bytes().map(|b| *b == *served)}),
      Ok(_) => json!({"text_is_the_decoding": null, "original_bytes_are_the_loaded_bytes": null}),
      Err(e) => json!({"error": err_name(e)}),
    };
  }
  if op.get("only_referrer_flag").is_some() {
    return json!({"err_has_referrer": err_has_referrer});
  }
  if op.get("serialize").is_some() {
    let text = serde_json::to_string(&graph).unwrap();
    return json!({"calls": calls, "result": result, "internal_error_in_serialisation": text.contains("INTERNAL ERROR")});
  }
  json!({"calls": calls, "result": result, "err_has_referrer": err_has_referrer})
}


/// C05 visit kernel replay: one imported module (https / http / file; .ts, .d.ts or .json) is loaded by a real build with a
/// HashMapLocker that does or does not already hold an entry for it; reports what the lockfile holds afterwards.
pub fn run_lock_op(op: &Value) -> Value {
  let scheme = op["scheme"].as_str().unwrap();
  let ext = op["ext"].as_str().unwrap();
  let x = if scheme == "file" { format!("file:///x.{ext}") } else { format!("{scheme}://h/x.{ext}") };
  let content = if ext == "json" { "{}" } else { "export {};" };
  let attrs = if ext == "json" {
    ImportAttributes::Known(HashMap::from([("type".to_string(), ImportAttribute::Known("json".to_string()))]))
  } else { ImportAttributes::None };
  let dep = DependencyDescriptor::Static(StaticDependencyDescriptor {
    kind: StaticDependencyKind::Import, types_specifier: None, specifier: x.clone(), specifier_range: PositionRange::zeroed(),
    is_side_effect: false, import_attributes: attrs });
  struct A(ModuleInfo);
  #[async_trait::async_trait(?Send)]
  impl ModuleAnalyzer for A {
    async fn analyze(&self, s: &ModuleSpecifier, _t: Arc<str>, _m: MediaType) -> Result<ModuleInfo, deno_error::JsErrorBox> {
      Ok(if s.as_str() == "file:///root.ts" { self.0.clone() } else { ModuleInfo::default() })
    }
  }
  let analyzer = A(ModuleInfo { dependencies: vec![dep], ..Default::default() });
  let sources: Vec<(String, Source<String, String>)> = vec![
    ("file:///root.ts".to_string(), Source::Module { specifier: "file:///root.ts".to_string(), maybe_headers: None, content: "".to_string() }),
    (x.clone(), Source::Module { specifier: x.clone(), maybe_headers: None, content: content.to_string() }),
  ];
  let loader = MemoryLoader::new(sources, vec![]);
  let xs = ModuleSpecifier::parse(&x).unwrap();
  let mut locker = HashMapLocker::default();
  let old = "0".repeat(64);
  if op["lockfile_has_entry"].as_bool().unwrap() {
    locker.set_remote_checksum(&xs, LoaderChecksum::new(old.clone()));
  }
  let mut graph = ModuleGraph::new(GraphKind::All);
  futures::executor::block_on(graph.build(
    vec![ModuleSpecifier::parse("file:///root.ts").unwrap()],
    vec![],
    &loader,
    BuildOptions { module_analyzer: &analyzer, locker: Some(&mut locker), executor: &InlineExecutor, ..Default::default() },
  ));
  let entry = locker.remote().get(&xs).map(|c| c.as_str().to_string());
  let written = entry.as_ref().map(|e| *e != old).unwrap_or(false);
  json!({
    "is_module": matches!(graph.try_get(&xs), Ok(Some(_))),
    "written": written,
    "digest_of_the_module_bytes": if written { Some(entry.unwrap() == LoaderChecksum::r#gen(content.as_bytes())) } else { None },
  })
}


/// jsr metadata kernel replay: an https URL into the registry is imported; the version manifest is served (optionally carrying its own
/// lockfileChecksum); the lockfile does or does not already hold a checksum for that package version. Reports what the lockfile holds for
/// the package version afterwards.
pub fn run_manifest_lock_op(op: &Value) -> Value {
  let own = op["manifest_has_lockfile_checksum"].as_bool().unwrap();
  let meta = format!(r#"{{"exports":{{".":"./mod.ts"}},"manifest":{{"/mod.ts":{{"size":0,"checksum":"sha256-{}"}}}}{}}}"#, "1".repeat(64),
    if own { r#","lockfileChecksum":"own-checksum""# } else { "" });
  let dep = DependencyDescriptor::Static(StaticDependencyDescriptor {
    kind: StaticDependencyKind::Import, types_specifier: None, specifier: REG_X.to_string(), specifier_range: PositionRange::zeroed(),
    is_side_effect: false, import_attributes: ImportAttributes::None });
  struct A(ModuleInfo);
  #[async_trait::async_trait(?Send)]
  impl ModuleAnalyzer for A {
    async fn analyze(&self, s: &ModuleSpecifier, _t: Arc<str>, _m: MediaType) -> Result<ModuleInfo, deno_error::JsErrorBox> {
      Ok(if s.as_str() == "file:///root.ts" { self.0.clone() } else { ModuleInfo::default() })
    }
  }
  let analyzer = A(ModuleInfo { dependencies: vec![dep], ..Default::default() });
  let loader = ScriptedLoader { headers: None, content: vec![], x: REG_X, version_meta: Some(meta.clone()), answers: vec!["Module".to_string()], calls: RefCell::new(vec![]), max_redirects: 10 };
  let nv = deno_semver::package::PackageNv::from_str("@a/b@1.0.0").unwrap();
  let mut locker = HashMapLocker::default();
  let old = "0".repeat(64);
  if op["lockfile_has_manifest_checksum"].as_bool().unwrap() {
    locker.set_pkg_manifest_checksum(&nv, LoaderChecksum::new(old.clone()));
  }
  let mut graph = ModuleGraph::new(GraphKind::All);
  futures::executor::block_on(graph.build(
    vec![ModuleSpecifier::parse("file:///root.ts").unwrap()],
    vec![],
    &loader,
    BuildOptions { module_analyzer: &analyzer, locker: Some(&mut locker), executor: &InlineExecutor, ..Default::default() },
  ));
  let entry = locker.pkg_manifests().get(&nv).map(|c| c.as_str().to_string());
  let written = entry.as_ref().map(|e| *e != old).unwrap_or(false);
  let value = if !written { Value::Null } else {
    let e = entry.unwrap();
    if e == "own-checksum" { json!("own") } else if e == LoaderChecksum::r#gen(meta.as_bytes()) { json!("digest") } else { json!("other") }
  };
  json!({"written": written, "value": value})
}
