"""C06 — JSR requirements resolve to the specified version (the selection function).

JsrPackageVersionResolver::resolve_version, packages::resolve_version, the date filters and
NewestDependencyDateOptions::get_for_package are executed from MIR on an arbitrary version world: U versions totally ordered
(ids are ranks), an arbitrary registry subset with yanked flags and optional creation dates, an arbitrary `matches` predicate
(generalises over semver requirements), an arbitrary sequence of already-selected versions, arbitrary cached set and cutoff,
and an arbitrary HashMap iteration order. The oracle is the four-tier rule of the statement."""
import z3
from ..engine import *
from ..models import *
from ..world import Sym
from ..oracle import Or, And
from ..harness import Query

ID = 'C06'
ASSUMPTIONS = [
    'Version is an atom of a totally ordered finite universe (Version::cmp = rank order); VersionReq::matches is an arbitrary predicate; chrono instants are 16-bit integers compared with <',
    'HashMap<Version,_>::iter yields the present keys in an arbitrary (symbolic) permutation; HashSet<Version> is a membership vector',
    'graph-level bookkeeping (resolve_jsr_nv, lockfile seeding, tag rejection) is builder / deno_semver code and outside this check',
]

class VersionWorld:
    def __init__(self, mir, sym, U, E):
        self.mir, self.sym, self.U, self.E = mir, sym, U, E
        s = sym
        self.present = [s.bool(f'v{i}_present') for i in range(U)]
        self.yanked = [s.bool(f'v{i}_yanked') for i in range(U)]
        self.created_p = [s.bool(f'v{i}_has_date') for i in range(U)]
        self.created = [s.bv(f'v{i}_date', 16) for i in range(U)]
        self.matches = [s.bool(f'v{i}_matches') for i in range(U)]
        self.cached = [s.bool(f'v{i}_cached') for i in range(U)]
        self.perm = [s.bv(f'perm{i}', 8, lt=U) for i in range(U)]
        self.existing = [(s.bool(f'ex{k}_p'), s.bv(f'ex{k}_v', 8, lt=U)) for k in range(E)]
        self.cutoff_p = s.bool('cutoff_p'); self.cutoff = s.bv('cutoff', 16)
        st = mir.structs
        def struct(name, **f): return Agg([f.get(k, O) for k in st[name]])
        infos = [struct('JsrPackageInfoVersion', created_at=opt(self.created_p[i], self.created[i]), yanked=self.yanked[i]) for i in range(U)]
        self.versions = MapModel(self.present, infos)
        self.info = struct('JsrPackageInfo', versions=self.versions)
        self.cutoff_val = opt(self.cutoff_p, Agg([self.cutoff]))
        self.resolver = struct('JsrPackageVersionResolver', package_info=ref_to(self.info, 'package-info'), newest_dependency_date=self.cutoff_val)
        cnt = BV(0, 8)
        for c in self.cached: cnt = IF(c, ADD(cnt, 1), cnt)
        self.cached_set = SetModel(self.cached, cnt)
        self.req = Agg([O, Opaque('version_req')])      # PackageReq { name, version_req }
    def constraints(self):
        cs = list(self.sym.cons)
        cs.append(z3.Distinct(self.perm) if self.U > 1 else z3.BoolVal(True))
        return cs
    def configure(self, eng):
        eng.cfg.update(N=self.U, hash_perm=self.perm, req_matches=self.matches)

def cubes(tier, has_fc):
    if tier == 'quick': return [{'U': 4, 'E': 2, 'part': 'select'}, {'U': 3, 'E': 1, 'part': 'exclusion'}]
    # the two-execution order-independence obligation is decided up to U = 5 (it did not finish in 25 min at U = 6)
    return [{'U': 6, 'E': 3, 'part': 'select', 'no_perm': True}, {'U': 5, 'E': 2, 'part': 'select'}, {'U': 3, 'E': 1, 'part': 'exclusion'}]
def cube_name(c): return f"U{c['U']}E{c['E']}_{c['part']}" + ('_single-order' if c.get('no_perm') else '')

def maxsel(U, member):
    """(exists, id) of the highest-ranked member"""
    ex, best = z3.BoolVal(False), z3.BitVecVal(0, 8)
    for i in range(U):
        best = z3.If(member[i], z3.BitVecVal(i, 8), best); ex = z3.Or(ex, member[i])
    return ex, best

class Resolve:
    def __init__(self, eng, vw):
        self.vw = vw
        ex_iter = IterModel([(p, url_ref(v)) for p, v in vw.existing])
        r = eng.call(eng.mir.find('JsrPackageVersionResolver', 'resolve_version'),
                     [ref_to(vw.resolver, 'resolver'), ref_to(vw.req, 'req'), ex_iter, ref_to(vw.cached_set, 'cached')], TRUE)
        self.is_err = r.is_variant(1)
        st = eng.mir.structs['JsrVersionResolverResolvedVersion']
        self.yanked, self.version = FALSE, BV(0, 8)
        if 0 in r.vars and r.vars[0].f and r.vars[0].f[0] is not None:
            ok = r.vars[0].f[0]
            self.yanked = ok.f[st.index('is_yanked')]; self.version = uid(eng, ok.f[st.index('version')])
        self.err_has_date, self.err_date = FALSE, BV(0, 16)
        if 1 in r.vars and r.vars[1].f and r.vars[1].f[0] is not None:
            er = r.vars[1].f[0]; nd = er.f[eng.mir.structs['JsrPackageReqNotFoundError'].index('newest_dependency_date')]
            self.err_has_date = opt_is_some(nd)
            p = opt_payload(nd)
            self.err_date = p.f[0] if isinstance(p, Agg) else (p if p is not None else BV(0, 16))
    def decode(self, m):
        from ..ops import ev
        if ev(m, self.is_err): return {'err': {'date': ev(m, self.err_date) if ev(m, self.err_has_date) else None}}
        return {'ok': {'version': ev(m, self.version), 'yanked': ev(m, self.yanked)}}
    def op_json(self, m): return {'op': 'resolve_version'}

class VWJson:
    """adapter so harness.replay_model can serialise the version world"""
    def __init__(self, vw): self.vw = vw
    def to_json(self, m):
        from ..ops import ev
        vw = self.vw
        return {'packages': True, 'universe': vw.U,
                'registry': {str(i): {'yanked': ev(m, vw.yanked[i]), 'created_at': ev(m, vw.created[i]) if ev(m, vw.created_p[i]) else None} for i in range(vw.U) if ev(m, vw.present[i])},
                'matches': [i for i in range(vw.U) if ev(m, vw.matches[i])], 'cached': [i for i in range(vw.U) if ev(m, vw.cached[i])],
                'existing': [ev(m, v) for p, v in vw.existing if ev(m, p)], 'cutoff': ev(m, vw.cutoff) if ev(m, vw.cutoff_p) else None}

def build(mir, cube):
    U, E = cube['U'], cube['E']
    sym = Sym()
    eng = Engine(mir, usize_bits=8, unroll=U + E + 2)
    qs = []
    if cube['part'] == 'exclusion':
        return build_exclusion(mir, sym, eng, cube)
    vw = VersionWorld(mir, sym, U, E); vw.configure(eng)
    res = Resolve(eng, vw)
    ops, world = [res], VWJson(vw)
    # ---- oracle: the four tiers of the statement
    def date_ok(i, strict_lt):
        cmpd = z3.ULT(vw.created[i], vw.cutoff) if strict_lt else z3.ULE(vw.created[i], vw.cutoff)
        return z3.Or(z3.Not(vw.cutoff_p), z3.Not(vw.created_p[i]), cmpd)
    def expected(strict_lt):
        sel1 = [z3.And(vw.matches[i], Or(z3.And(p, v == i) for p, v in vw.existing)) for i in range(U)]
        e1, b1 = maxsel(U, sel1)
        y1 = Or(z3.And(b1 == i, vw.present[i], vw.yanked[i]) for i in range(U))
        any_cached = Or(vw.cached)
        sel15 = [z3.And(any_cached, vw.present[i], z3.Not(vw.yanked[i]), vw.cached[i], vw.matches[i], date_ok(i, strict_lt)) for i in range(U)]
        e15, b15 = maxsel(U, sel15)
        sel2 = [z3.And(vw.present[i], z3.Not(vw.yanked[i]), vw.matches[i], date_ok(i, strict_lt)) for i in range(U)]
        e2, b2 = maxsel(U, sel2)
        sel3 = [z3.And(vw.present[i], vw.yanked[i], vw.matches[i], date_ok(i, strict_lt)) for i in range(U)]
        e3, b3 = maxsel(U, sel3)
        found = z3.Or(e1, e15, e2, e3)
        ver = z3.If(e1, b1, z3.If(e15, b15, z3.If(e2, b2, b3)))
        yk = z3.If(e1, y1, z3.If(e15, False, z3.If(e2, False, True)))
        excluded_by_date = Or(z3.And(vw.present[i], vw.matches[i], z3.Not(date_ok(i, strict_lt))) for i in range(U))
        return found, ver, yk, excluded_by_date
    found, ver, yk, excl = expected(False)          # statement: "not newer than" the cutoff
    found_s, ver_s, yk_s, excl_s = expected(True)
    at_cutoff = z3.And(vw.cutoff_p, Or(z3.And(vw.present[i], vw.matches[i], vw.created_p[i], vw.created[i] == vw.cutoff) for i in range(U)))
    known = [('version-created-exactly-at-the-cutoff-is-excluded', at_cutoff)]
    qs.append(Query('selected-version-follows-the-four-tier-rule', z3.Or(res.is_err == found, z3.And(found, z3.Or(res.version != ver, res.yanked != yk))), ops=ops, world=world, known=known,
                    describe=lambda m: {'expected': 'found' if z3.is_true(m.eval(found, model_completion=True)) else 'not found', 'version': m.eval(ver, model_completion=True).as_long()}))
    qs.append(Query('not-found-error-reports-the-cutoff-iff-a-match-was-excluded-by-date', z3.And(res.is_err, z3.Not(found), z3.Or(res.err_has_date != excl, z3.And(res.err_has_date, res.err_date != vw.cutoff))), ops=ops, world=world, known=known))
    # the same rule with the code's strict comparison must hold without any exclusion (pins everything but the boundary)
    qs.append(Query('four-tier-rule-modulo-cutoff-boundary', z3.Or(res.is_err == found_s, z3.And(found_s, z3.Or(res.version != ver_s, res.yanked != yk_s))), ops=ops, world=world))
    # independence from HashMap iteration order: a second execution under another permutation gives the same answer
    if not cube.get('no_perm'):
      sym2 = Sym(); perm2 = [sym2.bv(f'permB{i}', 8, lt=U) for i in range(U)]
      eng.cfg['hash_perm'] = perm2
      res2 = Resolve(eng, vw)
      eng.cfg['hash_perm'] = vw.perm
      qs.append(Query('result-independent-of-hash-iteration-order', z3.And(z3.Distinct(perm2) if U > 1 else True, And(sym2.cons), z3.Or(res.is_err != res2.is_err, z3.And(z3.Not(res.is_err), z3.Or(res.version != res2.version, res.yanked != res2.yanked)))), ops=ops, world=world))
    # vacuity witnesses: every tier is reached
    e1 = Or(z3.And(p, Or(z3.And(v == i, vw.matches[i]) for i in range(U))) for p, v in vw.existing)
    qs.append(Query('witness-tier1-existing-version-beats-newer-registry-version', z3.And(z3.Not(res.is_err), e1, Or(z3.And(vw.present[i], z3.Not(vw.yanked[i]), vw.matches[i], z3.UGT(z3.BitVecVal(i, 8), res.version)) for i in range(U))), expect='sat', kind='witness', ops=ops, world=world))
    qs.append(Query('witness-tier1.5-cached-preferred', z3.And(z3.Not(res.is_err), z3.Not(e1), Or(vw.cached), Or(z3.And(vw.present[i], z3.Not(vw.yanked[i]), vw.matches[i], date_ok(i, True), z3.UGT(z3.BitVecVal(i, 8), res.version)) for i in range(U))), expect='sat', kind='witness', ops=ops, world=world))
    qs.append(Query('witness-tier3-yanked-fallback', z3.And(z3.Not(res.is_err), res.yanked, z3.Not(e1)), expect='sat', kind='witness', ops=ops, world=world))
    qs.append(Query('witness-date-excludes-newest', z3.And(z3.Not(res.is_err), z3.Not(e1), Or(z3.And(vw.present[i], vw.matches[i], z3.Not(date_ok(i, True)), z3.UGT(z3.BitVecVal(i, 8), res.version)) for i in range(U))), expect='sat', kind='witness', ops=ops, world=world))
    qs.append(Query('witness-not-found-with-date', z3.And(res.is_err, res.err_has_date), expect='sat', kind='witness', ops=ops, world=world))
    for fname in sorted({f for f, _ in eng.exceeded}):
        qs.insert(0, Query('unwinding:' + fname.split('>::')[-1], Or(gd for f, gd in eng.exceeded if f == fname), kind='unwind'))
    qs.insert(0, Query('model-capacity', Or(gd for _, gd in eng.obligations), kind='obligation'))
    qs.insert(0, Query('no-panic', Or(gd for _, gd in eng.panics), ops=ops, world=world))
    return eng, world, vw.constraints(), qs

def build_exclusion(mir, sym, eng, cube):
    """JsrVersionResolver::get_for_package: the cutoff applies unless the package is excluded by name or by prefix"""
    P = 2
    date_p = sym.bool('date_p'); date = sym.bv('date', 16)
    # the exact-name exclusion set holds one arbitrary name: it may equal the package name, or merely be a prefix of it
    ex_p = sym.bool('exact_entry_present'); ex_eq = sym.bool('exact_entry_equals_name'); ex_sw = sym.bool('name_starts_with_exact_entry')
    exact = z3.And(ex_p, ex_eq)
    pre_p = [sym.bool(f'prefix{k}_p') for k in range(P)]; pre_m = [sym.bool(f'prefix{k}_matches') for k in range(P)]
    sw = {('pkg', f'prefix{k}'): pre_m[k] for k in range(P)}; sw[('pkg', 'exact0')] = ex_sw
    eng.cfg.update(N=1, str_eq={('pkg', 'exact0'): ex_eq}, starts_with=sw)
    st = mir.structs
    prefixes = SeqV([(pre_p[k], SymStr(f'prefix{k}')) for k in range(P)])
    opts = Agg([{'date': opt(date_p, Agg([date])), 'exclude_jsr_pkgs': SeqV([(ex_p, SymStr('exact0'))]), 'exclude_jsr_pkg_prefixes': prefixes}[k] for k in st['NewestDependencyDateOptions']])
    resolver = Agg([opts])
    info = Opaque('package info')
    r = eng.call(mir.find('JsrVersionResolver', 'get_for_package'), [ref_to(resolver, 'vr'), ref_to(SymStr('pkg'), 'name'), ref_to(info, 'info')], TRUE)
    nd = r.f[st['JsrPackageVersionResolver'].index('newest_dependency_date')]
    has = opt_is_some(nd); p = opt_payload(nd); val = p.f[0] if isinstance(p, Agg) else BV(0, 16)
    excluded = z3.Or(exact, Or(z3.And(pre_p[k], pre_m[k]) for k in range(P)))
    exp = z3.And(date_p, z3.Not(excluded))
    from ..ops import ev
    class W:
        def to_json(self, m): return {'packages': True, 'exclusion_only': True}
    class OpX:
        def decode(self, m): return {'cutoff_applies': ev(m, has)}
        def op_json(self, m): return {'op': 'get_for_package', 'date': ev(m, date) if ev(m, date_p) else None, 'exact': ev(m, ex_p), 'exact_equals': ev(m, ex_eq), 'exact_is_prefix': ev(m, ex_sw), 'prefixes': [[ev(m, pre_p[k]), ev(m, pre_m[k])] for k in range(P)]}
    ops, world = [OpX()], W()
    qs = [Query('cutoff-applies-unless-package-excluded', z3.Or(has != exp, z3.And(has, val != date)), ops=ops, world=world),
          Query('witness-prefix-exclusion', z3.And(date_p, z3.Not(has), z3.Not(exact)), expect='sat', kind='witness', ops=ops, world=world)]
    for fname in sorted({f for f, _ in eng.exceeded}):
        qs.insert(0, Query('unwinding:' + fname.split('>::')[-1], Or(gd for f, gd in eng.exceeded if f == fname), kind='unwind'))
    qs.insert(0, Query('no-panic', Or(gd for _, gd in eng.panics)))
    return eng, world, list(sym.cons) + [z3.Implies(ex_eq, ex_sw)], qs

def differential(mir, seed, count):
    """encoder validation: concrete version worlds through the interpreter and through the real crate"""
    import random, time
    from ..harness import run_replay
    rng = random.Random(2000 + seed)
    s = z3.Solver(); s.check(); M0 = s.model()
    t0 = time.time(); bad, examples = 0, []
    for c in range(count):
        U, E = rng.choice([2, 3, 4, 5]), rng.choice([0, 1, 2])
        cube = {}
        perm = list(range(U)); rng.shuffle(perm)
        for i in range(U):
            cube.update({f'v{i}_present': rng.random() < 0.7, f'v{i}_yanked': rng.random() < 0.3, f'v{i}_has_date': rng.random() < 0.7, f'v{i}_date': rng.randrange(1, 6),
                         f'v{i}_matches': rng.random() < 0.6, f'v{i}_cached': rng.random() < 0.3, f'perm{i}': perm[i]})
        for k in range(E): cube.update({f'ex{k}_p': rng.random() < 0.7, f'ex{k}_v': rng.randrange(U)})
        cube.update({'cutoff_p': rng.random() < 0.6, 'cutoff': rng.randrange(1, 6)})
        sym = Sym(cube)
        eng = Engine(mir, usize_bits=8, unroll=U + E + 2)
        vw = VersionWorld(mir, sym, U, E); vw.configure(eng)
        res = Resolve(eng, vw)
        if any(not z3.is_false(g) for _, g in eng.exceeded): raise Unsupported('differential: unwinding bound exceeded')
        dec = res.decode(M0)
        real = run_replay({'world': VWJson(vw).to_json(M0), 'ops': [{'op': 'resolve_version'}]})['outputs'][0]
        if dec != real:
            bad += 1
            if len(examples) < 3: examples.append({'world': VWJson(vw).to_json(M0), 'interpreter': dec, 'real': real})
    return {'cases': count, 'operations_compared': count, 'mismatches': bad, 'examples': examples, 'seconds': round(time.time() - t0, 1), 'seed': seed}
