"""C15 — a walk visits exactly the selected reachable set, each entry once."""
import z3
from ..engine import *
from ..models import *
from ..world import GraphWorld, Sym
from ..ops import WalkOptions, Walk, Validate, ev
from ..oracle import WalkOracle, Or, And
from ..harness import Query

ID = 'C15'
DEFAULT_FEATURES = True   # fast-check data is part of the graph state
FNS = ['ModuleGraph::walk', 'ModuleEntryIterator::new', 'ModuleEntryIterator::next', 'ModuleEntryIterator::analyze_module_deps',
       'ModuleEntryIterator::is_checkable', 'ModuleEntryIterator::skip_previous_dependencies']

def cubes(tier, has_fc):
    """partition of the option space (each cube is still fully symbolic in the graph state)"""
    out = []
    sizes = [(3, 1, 1)] if tier == 'quick' else [(4, 2, 1), (5, 1, 0)]
    for (N, D, I) in sizes:
        for kind in range(3):
            for fd in (False, True):
                cjs = [0] if kind == 1 else [0, 1, 2]   # check_js is irrelevant to code-only walks (asserted by a separate query)
                for cj in cjs:
                    pfcs = [False, True] if (has_fc and kind != 1) else [False]
                    for pfc in pfcs:
                        out.append({'N': N, 'D': D, 'I': I, 'kind': kind, 'fd': fd, 'cj': cj, 'pfc': pfc, 'skip': False})
        # errors(): the complete listing, drained (small worlds: every call re-enters the walk)
        if (N, D, I) == sizes[0]:
            for kind in range(3):
                for fd in (False, True):
                    for cj in ([0] if kind == 1 else [0, 1]):
                        # the complete listing costs minutes per obligation; quick relies on C02 (first error) for this clause
                        if tier == 'quick': continue      # minutes per obligation: thorough tier only
                        out.append({'N': 2, 'D': 1, 'I': 0, 'kind': kind, 'fd': fd, 'cj': cj, 'pfc': False, 'skip': False, 'errors': True})
        # skip_previous_dependencies: one cube per kind with symbolic skip set
        for kind in range(3):
            out.append({'N': N, 'D': D, 'I': 0, 'kind': kind, 'fd': True, 'cj': 0, 'pfc': False, 'skip': True})
    # inductive form (c15ind.py): new() establishes the walk invariant, one next() from an arbitrary state preserves it
    Ni, Di = (4, 2) if tier == 'quick' else (6, 2)
    for kind in range(3):
        for fd in (False, True):
            for cj in ([0] if kind == 1 else [0, 1, 2]):
                for pfc in ([False, True] if (has_fc and kind != 1) else [False]):
                    for part in ('init', 'step'):
                        out.append({'inductive': True, 'part': part, 'N': Ni, 'D': Di, 'I': 1, 'kind': kind, 'fd': fd, 'cj': cj, 'pfc': pfc, 'skip': False})
    return out

def cube_name(c): return (f"inductive-{c['part']}_" if c.get('inductive') else '') + f"N{c['N']}D{c['D']}I{c['I']}_k{c['kind']}_fd{int(c['fd'])}_cj{c['cj']}_pfc{int(c['pfc'])}" + ('_skip' if c['skip'] else '') + ('_errors' if c.get('errors') else '')

def build_errors(mir, cube):
    """its error listing contains precisely the errors attached to what it visited"""
    from ..ops import Errors
    from ..oracle import redirects_regular
    N, D, I = cube['N'], cube['D'], cube['I']
    sym = Sym()
    w = GraphWorld(mir, sym, N, D, I)
    M = N * (1 + 2 * D)
    eng = Engine(mir, usize_bits=8, unroll=N + 2, unroll_by_fn={'new': N + 3 * I * w.DI + 2, 'analyze_module_deps': 3 * D + 1, 'resolve': N + 1,
                 mir.find('ModuleGraphErrorIterator', 'next', 'Iterator'): (N + 1) + N * D + 1})
    w.configure(eng); eng.cfg['VEC'] = 2 * D + 2
    opts = WalkOptions(w, sym, 'w', {'kind': cube['kind'], 'fd': cube['fd'], 'cj': cube['cj'], 'pfc': cube['pfc']})
    rootsel = [sym.bool(f'wroot{i}') for i in range(N)]
    er = Errors(eng, w, opts, rootsel, M + 1)
    orc = WalkOracle(w, opts, rootsel)
    fails = orc.failures(True)
    es = er.es
    def matches(e, c, d):
        if d[0] == 'entry': return z3.And(c, e['cat'] == 0, e['spec'] == d[1])
        rid = d[3][2]
        return z3.And(c, z3.Or(z3.And(e['cat'] != 0, e['rid'] == rid), z3.And(e['cat'] == 0, orc.missing_at(e['spec']))))
    known = [('in-place-missing-check-on-irregular-redirects', z3.And(opts.fd, z3.Not(redirects_regular(w))))]
    qs = [Query('listing-ends-within-the-bound', es[M]['some'], ops=[er], world=w),
          Query('every-listed-error-belongs-to-something-visited', Or(z3.And(e['some'], z3.Not(Or(matches(e, c, d) for c, d in fails))) for e in es), ops=[er], world=w, known=known),
          Query('every-failure-of-what-was-visited-is-listed', Or(z3.And(c, z3.Not(Or(z3.And(e['some'], matches(e, c, d)) for e in es))) for c, d in fails), ops=[er], world=w, known=known),
          Query('no-resolution-error-listed-twice', Or(z3.And(es[a]['some'], es[b]['some'], es[a]['cat'] != 0, es[a]['cat'] == es[b]['cat'], es[a]['rid'] == es[b]['rid']) for a in range(len(es)) for b in range(a + 1, len(es))), ops=[er], world=w, known=known),
          # a code-only walk over two specifiers with one dependency each cannot list more than two errors (one failing module, one failing code edge)
          (Query('witness-three-errors', z3.And(es[2]['some'], Or(e['cat'] == 0 for e in es[:3]), Or(e['cat'] != 0 for e in es[:3])), expect='sat', kind='witness', ops=[er], world=w) if cube['kind'] != 1 else
           Query('witness-two-errors', z3.And(es[1]['some'], Or(e['cat'] == 0 for e in es[:2]), Or(e['cat'] != 0 for e in es[:2])), expect='sat', kind='witness', ops=[er], world=w))]
    for fname in sorted({f for f, _ in eng.exceeded}):
        qs.insert(0, Query('unwinding:' + fname.split('>::')[-1], Or(g for f, g in eng.exceeded if f == fname), kind='unwind'))
    qs.insert(0, Query('model-capacity', Or(g for _, g in eng.obligations), kind='obligation'))
    qs.insert(0, Query('no-panic', Or(g for _, g in eng.panics), ops=[er], world=w))
    return eng, w, sym.cons + w.invariant(), qs

def build(mir, cube):
    if cube.get('inductive'):
        from . import c15ind
        return c15ind.build(mir, cube)
    if cube.get('errors'): return build_errors(mir, cube)
    N, D, I = cube['N'], cube['D'], cube['I']
    sym = Sym()
    w = GraphWorld(mir, sym, N, D, I)
    eng = Engine(mir, usize_bits=8, unroll=N + 2, unroll_by_fn={'new': N + 3 * I * w.DI + 2, 'analyze_module_deps': 3 * D + 1, 'next': N + 2})
    w.configure(eng)
    eng.cfg['DQ'] = N + 1
    fixed = {'kind': cube['kind'], 'fd': cube['fd'], 'cj': cube['cj'], 'pfc': cube['pfc']}
    if not w.has_fc: fixed['pfc'] = cube['pfc']
    opts = WalkOptions(w, sym, 'w', fixed)
    rootsel = [sym.bool(f'wroot{i}') for i in range(N)]
    skipset = [sym.bool(f'skip{i}') for i in range(N)] if cube['skip'] else None
    walk = WalkWithSkip(eng, w, opts, rootsel, N + 1, skipset) if cube['skip'] else Walk(eng, w, opts, rootsel, N + 1)
    orc = WalkOracle(w, opts, rootsel, skipset)
    base = sym.cons + w.invariant()
    qs = []
    for fname in sorted({f for f, _ in eng.exceeded}):
        qs.append(Query('unwinding:' + fname.split('>::')[-1], Or(g for f, g in eng.exceeded if f == fname), kind='unwind'))
    qs.append(Query('model-capacity', Or(g for _, g in eng.obligations), kind='obligation'))
    qs.append(Query('no-panic', Or(g for _, g in eng.panics), kind='property', ops=[walk], world=w))
    ys = walk.ys
    qs.append(Query('exhausted-after-N-yields', ys[N]['some'], ops=[walk], world=w))
    dup = Or(z3.And(ys[a]['some'], ys[b]['some'], ys[a]['id'] == ys[b]['id']) for a in range(len(ys)) for b in range(a + 1, len(ys)))
    qs.append(Query('no-duplicate-yield', dup, ops=[walk], world=w))
    qs.append(Query('yielded-set-equals-reachable-set', Or(walk.got(i) != orc.yields[i] for i in range(N)), ops=[walk], world=w,
                    describe=lambda m: {'expected_yields': [i for i in range(N) if ev(m, orc.yields[i])], 'reach': [i for i in range(N) if ev(m, orc.reach[i])]}))
    qs.append(Query('entry-kind-and-redirect-target', Or(z3.And(y['some'], Or(z3.And(y['id'] == i, z3.Or(y['tag'] != orc.entry_tag(i),
                    z3.And(y['tag'] == 2, y['red_to'] != w.mods[i]['red'][1]))) for i in range(N))) for y in ys), ops=[walk], world=w))
    # vacuity witnesses
    qs.append(Query('witness-full-walk-with-redirect-and-error', z3.And([y['some'] for y in ys[:N]] + [Or(y['tag'] == 2 for y in ys[:N]), Or(y['tag'] == 1 for y in ys[:N])]) if N >= 3 else z3.And([y['some'] for y in ys[:N]]),
                    expect='sat', kind='witness', ops=[walk], world=w))
    if cube['kind'] == 2:
        qs.append(Query('witness-types-only-replacement', Or(z3.And(orc.reach[i], orc.replaced[i], orc.td_ok[i]) for i in range(N)), expect='sat', kind='witness', ops=[walk], world=w))
    if cube['skip']:
        qs.append(Query('witness-skip-changes-result', Or(z3.And(skipset[i], walk.got_tag(i, 0), w.has_deps(i), Or(d['p'] for d in w.mods[i]['deps'])) for i in range(N)), expect='sat', kind='witness', ops=[walk], world=w))
    if w.has_fc and cube['pfc']:
        qs.append(Query('witness-fast-check-deps-used', Or(z3.And(orc.yields[i], orc.depmap(i)[1][0]) for i in range(N)), expect='sat', kind='witness', ops=[walk], world=w))
    return eng, w, base, qs

class WalkWithSkip(Walk):
    """the caller skips the dependencies of every yielded specifier that lies in an arbitrary set"""
    def __init__(self, eng, world, opts, rootsel, steps, skipset):
        self.skipset = skipset
        mir = eng.mir
        self.world, self.opts, self.rootsel = world, opts, rootsel
        from ..ops import roots_iter
        it = eng.call(mir.find('ModuleGraph', 'walk'), [world.ptr, roots_iter(world, rootsel), opts.value()], TRUE)
        self.itroot = Root(it, 'walk-iter'); self.itptr = Ptr([(TRUE, (self.itroot, ()))])
        NEXT = mir.find('ModuleEntryIterator', 'next', 'Iterator')
        SKIP = mir.find('ModuleEntryIterator', 'skip_previous_dependencies')
        self.ys, self.skip = [], []
        for k in range(steps):
            r = eng.call(NEXT, [self.itptr], TRUE)
            is_some = opt_is_some(r); pair = opt_payload(r)
            if pair is None or z3.is_false(is_some):
                self.ys.append({'some': FALSE, 'id': BV(0, 8), 'tag': BV(0, 8), 'red_to': BV(0, 8), 'entry': None}); self.skip.append(FALSE); continue
            yid = uid(eng, pair.f[0]); entry = pair.f[1]
            red_to = uid(eng, entry.vars[2].f[0]) if 2 in entry.vars and entry.vars[2].f and entry.vars[2].f[0] is not None else BV(0, 8)
            self.ys.append({'some': is_some, 'id': yid, 'tag': entry.tag, 'red_to': red_to, 'entry': entry})
            g = AND(is_some, OR(*[AND(EQ(yid, BV(i, 8)), skipset[i]) for i in range(world.N)]))
            self.skip.append(g)
            eng.call(SKIP, [self.itptr], g)
        self.eng = eng

ASSUMPTIONS = [
    'graph state satisfies the representation invariant of DESIGN.md section 3 (module specifier = key, no self-redirect, distinct dependency texts, code-only graphs carry no type data); entries at redirect sources, cycles and Pending entries are NOT excluded',
    'CheckJsOption::Custom is a pure predicate; roots are passed in specifier-id order; containers are modelled over a finite specifier universe (see environment_models)',
]

def differential(mir, seed, count):
    from ..differential import graph_differential
    return graph_differential(mir, seed, count)
