"""C09 (partial: the tracing lattice only) — nothing that still needs tracing is ever dropped.

Fast check decides what to trace next with `ImportedExports::add` (range_finder.rs): it merges the exports a module is asked
for into what was already handled and returns the part that is NEW and therefore still has to be traced. A lost delta is how
a dangling reference gets into emitted output. Kernel decided here, from MIR, for every pair of values over the export names
{default, a, b} with qualification depth <= 2:
   den(self') ⊇ den(self) ∪ den(x)                 (nothing handled or requested is forgotten)
   den(delta) ⊇ den(x) \\ den(self)                 (everything new is reported for tracing; delta = None only if nothing is new)
   den(self') ⊆ den(self) ∪ den(delta)             (nothing is marked as handled without being reported for tracing)
where den maps a value to the set of export paths it covers (`Star` = every export but `default`).
The closure of emitted modules over all programs (the main clause of C09) needs the swc pipeline and is NOT covered."""
import z3
from ..engine import *
from ..models import *
from ..world import Sym
from ..oracle import Or, And
from ..harness import Query

ID = 'C09'
DEFAULT_FEATURES = True
ASSUMPTIONS = [
    'only ImportedExports::add / NamedSubset::extend / Exports::extend are decided; PublicRangeFinder, the symbol dependency analyzer and the transform are outside',
    'export names range over {default, a, b} plus an unnamed "any other name"; nesting depth 2 (an export and its members)',
    'native replay goes through the cfg(deno_graph_verif) hook fast_check::verif_imported_exports_add (plain-data in, plain-data out)',
    'well-formed values: a partially covered export lists at least one member (Exports::Subset is never left empty by the code that builds these values)',
]
NAMES = ['default', 'a', 'b']
OTHER = 3       # stands for every name outside NAMES

def cubes(tier, has_fc): return [{'self': s, 'x': x} for s in range(3) for x in range(3)]
def cube_name(c): return f"self-{['Star', 'StarWithDefault', 'Subset'][c['self']]}_x-{['Star', 'StarWithDefault', 'Subset'][c['x']]}"

class Val:
    """symbolic ImportedExports with description variables"""
    def __init__(self, mir, sym, name, kind):
        self.kind = kind
        n = len(NAMES)
        self.p1 = [sym.bool(f'{name}_{NAMES[i]}') for i in range(n)]                     # export i mentioned
        self.all1 = [sym.bool(f'{name}_{NAMES[i]}_all') for i in range(n)]               # ... as a whole
        self.p2 = [[sym.bool(f'{name}_{NAMES[i]}_{NAMES[j]}') for j in range(n)] for i in range(n)]   # member j of export i (always as a whole)
        def exports_all(): return EnumV(0, {0: Agg([])})
        def inner(i):
            return Agg([SlotMap(list(self.p2[i]), [TextV(BV(j, 8)) for j in range(n)], [exports_all() for _ in range(n)])])     # NamedSubset(IndexMap)
        vals = [EnumV(IF(self.all1[i], BV(0, 8), BV(1, 8)), {0: Agg([]), 1: Agg([inner(i)])}) for i in range(n)]
        subset = Agg([SlotMap(list(self.p1), [TextV(BV(i, 8)) for i in range(n)], vals)])
        self.value = EnumV(kind, {0: Agg([]), 1: Agg([]), 2: Agg([subset])})

def den_desc(v):
    """denotation of a description: dict (n1, n2) -> z3 Bool, n2 = 'self' for the export itself"""
    n = len(NAMES); d = {}
    for i in list(range(n)) + [OTHER]:
        for j in ['self'] + list(range(n)) + [OTHER]:
            if v.kind == 0: d[(i, j)] = z3.BoolVal(i != 0)
            elif v.kind == 1: d[(i, j)] = z3.BoolVal(True)
            elif i == OTHER: d[(i, j)] = z3.BoolVal(False)
            else:
                whole = z3.And(v.p1[i], v.all1[i])
                if j == 'self': d[(i, j)] = v.p1[i]
                elif j == OTHER: d[(i, j)] = whole
                else: d[(i, j)] = z3.Or(whole, z3.And(v.p1[i], z3.Not(v.all1[i]), v.p2[i][j]))
    return d

def den_value(eng, val):
    """denotation of an interpreter value of type ImportedExports (tag symbolic)"""
    n = len(NAMES); d = {}
    tag = val.tag
    sub = val.vars.get(2)
    m1 = sub.f[0].f[0] if sub and sub.f and sub.f[0] is not None else None        # SlotMap of the outer NamedSubset
    def has1(i):
        if m1 is None: return FALSE, FALSE, None
        pres, isall, inner = FALSE, FALSE, []
        for k in range(len(m1.present)):
            if m1.keys[k] is None or m1.vals[k] is None: continue
            hit = AND(m1.present[k], key_match(eng, TextV(BV(i, 8)), m1.keys[k]))
            pres = OR(pres, hit); isall = OR(isall, AND(hit, EQ(m1.vals[k].tag, BV(0, 8))))
            iv = m1.vals[k].vars.get(1)
            if iv and iv.f and iv.f[0] is not None: inner.append((hit, iv.f[0].f[0]))
        return pres, isall, inner
    for i in list(range(n)) + [OTHER]:
        pres, isall, inner = has1(i) if i != OTHER else (FALSE, FALSE, [])
        for j in ['self'] + list(range(n)) + [OTHER]:
            star = z3.BoolVal(i != 0)
            if j == 'self': sv = pres
            elif j == OTHER: sv = AND(pres, isall)
            else:
                mem = FALSE
                for hit, m2 in (inner or []):
                    for k in range(len(m2.present)):
                        if m2.keys[k] is None: continue
                        mem = OR(mem, AND(hit, m2.present[k], key_match(eng, TextV(BV(j, 8)), m2.keys[k])))
                sv = OR(AND(pres, isall), AND(pres, mem))
            d[(i, j)] = z3.If(tag == 0, star, z3.If(tag == 1, z3.BoolVal(True), sv))
    return d

def build(mir, cube):
    sym = Sym()
    eng = Engine(mir, usize_bits=8, unroll=10)
    eng.cfg.update(N=1, MAPCAP=len(NAMES), text_literals={n: i for i, n in enumerate(NAMES)})
    a = Val(mir, sym, 'self', cube['self']); x = Val(mir, sym, 'x', cube['x'])
    root = Root(a.value, 'self')
    name = mir.find('ImportedExports', 'add')
    r = eng.call(name, [Ptr([(TRUE, (root, ()))]), x.value], TRUE)
    post = root.val
    some = opt_is_some(r); delta = opt_payload(r)
    dA, dX = den_desc(a), den_desc(x)
    dP = den_value(eng, post)
    dD = den_value(eng, delta) if delta is not None else {k: FALSE for k in dA}
    keys = list(dA)
    wf = []       # well-formed descriptions: members only under mentioned, not-whole exports
    for v in (a, x):
        for i in range(len(NAMES)):
            wf.append(z3.Implies(v.all1[i], v.p1[i]))
            for j in range(len(NAMES)): wf.append(z3.Implies(v.p2[i][j], z3.And(v.p1[i], z3.Not(v.all1[i]))))
            wf.append(z3.Implies(z3.And(v.p1[i], z3.Not(v.all1[i])), Or(v.p2[i])))
    def describe(m):
        def ev(t):
            v = m.eval(t, model_completion=True); return z3.is_true(v)
        f = lambda d: sorted(f'{NAMES[i] if i != OTHER else "*"}.{(NAMES[j] if j != OTHER else "*") if j != "self" else ""}' for (i, j), t in d.items() if ev(t))
        return {'self': f(dA), 'x': f(dX), 'self_after': f(dP), 'delta': f(dD) if ev(some) else None}
    qs = [Query('nothing-handled-or-requested-is-forgotten', Or(z3.And(z3.Or(dA[k], dX[k]), z3.Not(dP[k])) for k in keys), describe=describe),
          Query('nothing-is-marked-handled-without-being-reported', Or(z3.And(dP[k], z3.Not(dA[k]), z3.Not(z3.And(some, dD[k]))) for k in keys), describe=describe),
          Query('everything-new-is-reported-for-tracing', Or(z3.And(dX[k], z3.Not(dA[k]), z3.Not(z3.And(some, dD[k]))) for k in keys), describe=describe),
          Query('reported-delta-lies-within-the-new-handled-set', z3.And(some, Or(z3.And(dD[k], z3.Not(dP[k])) for k in keys)), describe=describe),
          Query('witness-something-new', z3.And(some, Or(z3.And(dX[k], z3.Not(dA[k])) for k in keys)), expect='sat' if not (cube['self'] == 1 or (cube['self'] == 0 and cube['x'] == 0)) else 'unsat', kind='witness' if not (cube['self'] == 1 or (cube['self'] == 0 and cube['x'] == 0)) else 'property')]
    # ---- native replay through the hook
    def evb(m, t): return z3.is_true(m.eval(t, model_completion=True))
    def desc_json(m, v):
        if v.kind != 2: return {'kind': v.kind, 'entries': []}
        es = []
        for i, nme in enumerate(NAMES):
            if not evb(m, v.p1[i]): continue
            es.append([nme, None if evb(m, v.all1[i]) else sorted(NAMES[j] for j in range(len(NAMES)) if evb(m, v.p2[i][j]))])
        return {'kind': 2, 'entries': es}
    def value_json(m, val):
        tag = m.eval(val.tag, model_completion=True).as_long()
        if tag != 2: return {'kind': tag, 'entries': []}
        m1 = val.vars[2].f[0].f[0]; es = []
        for k in range(len(m1.present)):
            if m1.keys[k] is None or m1.vals[k] is None or not evb(m, m1.present[k]): continue
            nme = NAMES[m.eval(as_key(eng, m1.keys[k]).id, model_completion=True).as_long()]
            v = m1.vals[k]
            if m.eval(v.tag, model_completion=True).as_long() == 0: es.append([nme, None]); continue
            m2 = v.vars[1].f[0].f[0]
            es.append([nme, sorted(NAMES[m.eval(as_key(eng, m2.keys[j]).id, model_completion=True).as_long()] for j in range(len(m2.present)) if m2.keys[j] is not None and evb(m, m2.present[j]))])
        return {'kind': 2, 'entries': sorted(es)}
    class W:
        has_fc = True
        def to_json(self, m): return {'positions': True}
    class OpAdd:
        def op_json(self, m): return {'op': 'imported_exports_add', 'self': desc_json(m, a), 'x': desc_json(m, x)}
        def decode(self, m): return {'after': value_json(m, post), 'delta': value_json(m, delta) if (delta is not None and evb(m, some)) else None}
    world, opa = W(), OpAdd()
    # recorded finding: a partially traced `default` export (default.x) followed by `export *` is upgraded to "everything handled"
    partial_default = z3.And(a.p1[0], z3.Not(a.all1[0])) if (cube['self'] == 2 and cube['x'] == 0) else z3.BoolVal(False)
    known = [('partial-default-then-star-marks-default-handled', partial_default)]
    for q in qs: q.world, q.ops, q.known = world, [opa], (known if q.name == 'nothing-is-marked-handled-without-being-reported' else [])
    for fname in sorted({f for f, _ in eng.exceeded}):
        qs.insert(0, Query('unwinding:' + fname.split('>::')[-1], Or(g for f, g in eng.exceeded if f == fname), kind='unwind'))
    qs.insert(0, Query('model-capacity', Or(g for _, g in eng.obligations), kind='obligation'))
    qs.insert(0, Query('no-panic', Or(g for _, g in eng.panics)))
    return eng, world, list(sym.cons) + wf, qs

def differential(mir, seed, count):
    """encoder validation: concrete pairs of values through the interpreter and through the real ImportedExports::add (hook)"""
    import random, time
    from ..harness import run_replay, normalize_real
    rng = random.Random(3000 + seed)
    s = z3.Solver(); s.check(); M0 = s.model()
    t0 = time.time(); bad, examples = 0, []
    n = len(NAMES)
    for c in range(count):
        cube = {'self': rng.randrange(3), 'x': rng.randrange(3)}
        pin = {}
        for nm in ('self', 'x'):
            for i in range(n):
                p1 = rng.random() < 0.6; al = p1 and rng.random() < 0.5
                mem = [p1 and not al and rng.random() < 0.5 for _ in range(n)]
                if p1 and not al and not any(mem): mem[rng.randrange(n)] = True
                pin[f'{nm}_{NAMES[i]}'] = p1; pin[f'{nm}_{NAMES[i]}_all'] = al
                for j in range(n): pin[f'{nm}_{NAMES[i]}_{NAMES[j]}'] = mem[j]
        import mirsym.props.c09 as me
        orig = me.Sym
        try:
            me.Sym = lambda: orig(pin)
            eng, world, base, qs = build(mir, cube)
        finally:
            me.Sym = orig
        if any(not z3.is_false(g) for _, g in eng.exceeded): raise Unsupported('differential: unwinding bound exceeded')
        q = [q for q in qs if q.ops][0]
        op = q.ops[0]
        oj = op.op_json(M0); dec = op.decode(M0)
        real = normalize_real(oj, run_replay({'world': {'positions': True}, 'ops': [oj]}, fast_check=True)['outputs'][0])
        if dec != real:
            bad += 1
            if len(examples) < 3: examples.append({'op': oj, 'interpreter': dec, 'real': real})
    return {'cases': count, 'operations_compared': count, 'mismatches': bad, 'examples': examples, 'seconds': round(time.time() - t0, 1), 'seed': seed}
