"""Shared kernel: graph::parse_module_source_and_info (an `async fn`) executed from the MIR of its coroutine body.

The coroutine is started in its initial state (discriminant 0, up-vars = the two arguments) and polled once. The module analyzer
is the environment: `analyze` returns a future whose first poll is Ready with an arbitrary Ok/Err, so the whole body runs to
completion inside that one poll and the coroutine returns Poll::Ready(result). (An analyzer that suspends only makes the compiler
save and restore the locals; the decisions encoded here are taken before the first await.)

Symbolic: the media type and the header charset that resolve_media_type_and_charset_from_headers reports (any MediaType, charset
present or absent), the specifier scheme, presence of headers/mtime/referrers, the import attribute (absent or any of the kinds the
code distinguishes, or an unknown one), is_root / is_dynamic_branch / unstable_config_imports, the decoder's verdict (ok/err, any
text), the analyzer's verdict and the Wasm-to-dts verdict.

Used by C20 (which bytes and which charset reach the decoder, what is stored) and by C01 (the recorded media type / module
class / specifier are those of the resolved media type)."""
import z3, re
from ..engine import *
from ..models import *
from ..world import Sym
from ..oracle import Or, And
from ..harness import Query
from ..ops import ev

ATTR_KINDS = ['json', 'text', 'bytes', 'yaml', 'toml', 'json5', 'jsonc', 'css', 'other']      # 'other' = any string the code does not name
JS_FAMILY = ['JavaScript', 'Mjs', 'Jsx', 'TypeScript', 'Mts', 'Tsx', 'Cjs', 'Cts', 'Dts', 'Dmts', 'Dcts']

class EnumStrV:
    """a string drawn from a finite table of literals, the last entry standing for every other string"""
    def __init__(self, code, table): self.code, self.table = code, table
    def merge(self, g, o):
        if o.table is not self.table: raise Unsupported('merge of strings over different tables')
        return EnumStrV(IF(g, self.code, o.code), self.table)
    def eq_lit(self, s):
        if s not in self.table[:-1]: raise Unsupported(f'comparison of an attribute kind with the literal {s!r}, which the kernel does not enumerate')
        return EQ(self.code, BV(self.table.index(s), 8))

def _val(eng, x):
    while isinstance(x, Ptr): x = eng.load(x)
    return x
def enumstr_eq(eng, c, a, g):
    x, y = _val(eng, a[0]), _val(eng, a[1])
    if isinstance(y, EnumStrV): x, y = y, x
    if isinstance(x, EnumStrV) and isinstance(y, StrV): r = x.eq_lit(y.s)
    elif isinstance(x, EnumStrV) and isinstance(y, EnumStrV): raise Unsupported('comparison of two symbolic attribute kinds')
    else: r = str_eq(eng, c, a, g)
    return NOT(r) if c.rstrip().endswith('::ne') else r

def variant_fields(mir, enum):
    """declared field names of the struct-like variants of an in-crate enum (MIR aggregates list operands in declaration order)"""
    import os
    for root, _, files in os.walk(mir.src_dir):
        for f in files:
            if not f.endswith('.rs'): continue
            t = open(os.path.join(root, f)).read()
            m = re.search(r'\benum\s+' + enum + r'\s*\{', t)
            if not m: continue
            depth, j = 1, m.end()
            while depth: depth += {'{': 1, '}': -1}.get(t[j], 0); j += 1
            body = t[m.end():j - 1]; out = {}
            for vm in re.finditer(r'(\w+)\s*\{([^{}]*)\}', body):
                out[vm.group(1)] = re.findall(r'(?:pub\s+)?(\w+)\s*:', re.sub(r'//[^\n]*', '', vm.group(2)))
            return out
    raise Unsupported('enum not found in the sources: ' + enum)

def build(mir, cube, want='all'):
    sym = Sym()
    st, en = dict(mir.structs), mir.enums
    MT = en['MediaType']
    eng = Engine(mir, usize_bits=64, unroll=4)
    eng.cfg['N'] = 1
    scheme = sym.bv('specifier_scheme', 8, lt=len(SCHEMES)); eng.cfg['scheme'] = [scheme]
    mt = sym.bv('resolved_media_type', 8, lt=len(MT))
    has_headers = sym.bool('has_headers'); has_cs = sym.bool('header_charset_given')
    has_mtime = sym.bool('has_mtime'); mtime_v = sym.bv('mtime', 64)
    has_attr = sym.bool('has_attribute'); attr = sym.bv('attribute_kind', 8, lt=len(ATTR_KINDS))
    has_ref = sym.bool('has_referrer'); has_spr = sym.bool('has_source_phase_referrer')
    is_root, is_dyn, cfg_imports = sym.bool('is_root'), sym.bool('is_dynamic_branch'), sym.bool('unstable_config_imports')
    content_id = sym.bv('content_id', 8)
    an_ok, wasm_ok = sym.bool('analyzer_ok'), sym.bool('wasm_to_dts_ok')
    eng.cfg.update(decode_ok_tag=sym.bv('decode_result', 8, lt=2), decoded_len=sym.bv('decoded_len', 64), decoded_kind=sym.bv('decoded_kind', 8, lt=3))
    decode_ok = eng.cfg['decode_ok_tag'] == 0

    rng = Agg([{'specifier': UrlV(BV(0, 8))}.get(f, O) for f in st['Range']])
    attr_v = Agg([{'range': rng, 'kind': EnumStrV(attr, ATTR_KINDS)}[f] for f in st['AttributeTypeWithRange']])
    content = Agg([content_id])
    opts = Agg([{'specifier': UrlV(BV(0, 8)), 'maybe_headers': opt(has_headers, Opaque('headers')), 'mtime': opt(has_mtime, Agg([mtime_v])), 'content': content,
                 'maybe_attribute_type': opt(has_attr, ref_to(attr_v, 'attr')), 'maybe_referrer': opt(has_ref, ref_to(rng, 'referrer')),
                 'maybe_source_phase_referrer': opt(has_spr, ref_to(rng, 'spr')), 'is_root': is_root, 'is_dynamic_branch': is_dyn,
                 'unstable_config_imports': cfg_imports}[f] for f in st['ParseModuleAndSourceInfoOptions']])
    analyze_calls, decode_bytes = [], []
    def stub_headers(e, c, a, g): return Agg([EnumV(mt, {}), opt(has_cs, ref_to(SymStr('header-charset'), 'hdr'))])
    def stub_analyze(e, c, a, g):
        analyze_calls.append((g, a[2], a[3])); return Opaque('analyzer future')
    def stub_poll(e, c, a, g):
        res = EnumV(IF(an_ok, BV(0, 8), BV(1, 8)), {0: Agg([Opaque('module info')]), 1: Agg([Opaque('analyzer diagnostic')])})
        return EnumV(BV(0, 8), {0: Agg([res])})
    def stub_wasm(e, c, a, g):
        return EnumV(IF(wasm_ok, BV(0, 8), BV(1, 8)), {0: Agg([SymStr('wasm dts')]), 1: Agg([Opaque('wasm error')])})
    def stub_decode(e, c, a, g):
        decode_bytes.append((g, a[1])); return decode_model(e, c, a, g)
    ident = lambda e, c, a, g: a[0]
    eng.cfg['stubs'] = [
        (re.compile(r'resolve_media_type_and_charset_from_headers'), stub_headers),
        (re.compile(r'<dyn ModuleAnalyzer as ModuleAnalyzer>::analyze.*'), stub_analyze),
        (re.compile(r'<Pin<Box<dyn .*Future<.*>>> as .*Future>::poll'), stub_poll),
        (re.compile(r'<Pin<Box<dyn .*Future<.*>>> as .*IntoFuture>::into_future'), ident),
        (re.compile(r'Pin::<&mut Pin<Box<dyn .*>>>::new_unchecked'), ident),
        (re.compile(r'wasm_module_to_dts'), stub_wasm),
        (re.compile(r'decode_arc_source_detail'), stub_decode),
        (re.compile(r'<str as PartialEq>::(eq|ne)|<&str as PartialEq>::(eq|ne)|<String as PartialEq<&str>>::(eq|ne)|<String as PartialEq<str>>::(eq|ne)'), enumstr_eq),
        (re.compile(r'<String as Into<Arc<str>>>::into'), ident),
        (re.compile(r'<Arc<\[u8\]> as Deref>::deref'), ident),
        (re.compile(r'Arc::<JsErrorBox>::new'), ident),
    ]
    coro = CoroV(BV(0, 8), {}, [Opaque('analyzer'), opts])
    fname = next(n for n in mir.fn_text if n.endswith('parse_module_source_and_info::{closure#0}'))
    poll = eng.call(fname, [Agg([ref_to(coro, 'coroutine')]), Opaque('task context')], TRUE)
    if not isinstance(poll, EnumV): raise Unsupported(f'poll result {poll!r}')
    ready = poll.is_variant(0)
    res = poll.vars[0].f[0]
    is_ok = AND(ready, res.is_variant(0)); is_err = AND(ready, res.is_variant(1))
    okv = res.vars[0].f[0] if 0 in res.vars and res.vars[0].f else EnumV(BV(0, 8), {})      # ModuleSourceAndInfo (absent when a pinned input always fails)
    MSI = en['ModuleSourceAndInfo']; vfields = variant_fields(mir, 'ModuleSourceAndInfo')
    iJson, iJs, iWasm = MSI.index('Json'), MSI.index('Js'), MSI.index('Wasm')
    okJson, okJs, okWasm = AND(is_ok, okv.is_variant(iJson)), AND(is_ok, okv.is_variant(iJs)), AND(is_ok, okv.is_variant(iWasm))
    return dict(eng=eng, sym=sym, mir=mir, MT=MT, mt=mt, scheme=scheme, has_headers=has_headers, has_cs=has_cs, has_mtime=has_mtime, mtime_v=mtime_v,
                has_attr=has_attr, attr=attr, has_ref=has_ref, has_spr=has_spr, is_root=is_root, is_dyn=is_dyn, cfg_imports=cfg_imports,
                content_id=content_id, an_ok=an_ok, wasm_ok=wasm_ok, decode_ok=decode_ok, analyze_calls=analyze_calls, decode_bytes=decode_bytes,
                decode_calls=eng.cfg.get('decode_calls', []), ready=ready, res=res, okv=okv, is_ok=is_ok, is_err=is_err,
                vfields=vfields, okJson=okJson, okJs=okJs, okWasm=okWasm, iJson=iJson, iJs=iJs, iWasm=iWasm)

def queries(k, part):
    """part = 'forwarding' (C20: what reaches the decoder and what is stored) | 'dispatch' (C01: module class / media type / analyzer input)"""
    eng, mir, MT = k['eng'], k['mir'], k['MT']
    mt, scheme = k['mt'], k['scheme']
    okv, vf = k['okv'], k['vfields']
    st = mir.structs
    def fld(var, name): return okv.vars[k['i' + var]].f[vf[var].index(name)]
    mtv = lambda n: BV(MT.index(n), 8)
    dcalls = k['decode_calls']
    hdr_used = Or(g for g, cs in dcalls if isinstance(cs, SymStr) and cs.tag == 'header-charset')
    decoded = Or(g for g, _ in dcalls)
    MEK = mir.enums['ModuleErrorKind']
    errv = k['res'].vars[1].f[0] if 1 in k['res'].vars and k['res'].vars[1].f else None
    while isinstance(errv, (BoxV, Agg)) and not isinstance(errv, EnumV): errv = errv.val if isinstance(errv, BoxV) else errv.f[0]
    class W:
        def to_json(self, m): return {'positions': True}
    class Op:
        def op_json(self, m):
            return {'op': 'parse_source_and_info', 'media_type': MT[ev(m, mt)], 'scheme': SCHEMES[ev(m, scheme)], 'has_headers': ev(m, k['has_headers']), 'has_charset': ev(m, k['has_cs']),
                    'has_mtime': ev(m, k['has_mtime']), 'wasm_ok': ev(m, k['wasm_ok']), 'attribute': ATTR_KINDS[ev(m, k['attr'])] if ev(m, k['has_attr']) else None,
                    'has_referrer': ev(m, k['has_ref']), 'has_source_phase_referrer': ev(m, k['has_spr']), 'analyzer_ok': ev(m, k['an_ok']), 'is_root': ev(m, k['is_root']),
                    'is_dynamic_branch': ev(m, k['is_dyn']), 'unstable_config_imports': ev(m, k['cfg_imports'])}
        def decode(self, m):
            if ev(m, k['is_err']): return {'result': 'err', 'err_kind': MEK[ev(m, errv.tag)]}
            which = 'json' if ev(m, k['okJson']) else 'js' if ev(m, k['okJs']) else 'wasm'
            V = {'json': 'Json', 'js': 'Js', 'wasm': 'Wasm'}[which]
            media = MT[ev(m, fld('Js', 'media_type').tag)] if which == 'js' else V
            return {'result': which, 'media_type': media, 'has_mtime': ev(m, fld(V, 'mtime').tag) == 1, 'same_specifier': ev(m, fld(V, 'specifier').id) == 0,
                    'charset_used': None if which == 'wasm' else ('header-charset' if ev(m, hdr_used) else 'detected-charset'),
                    'wasm_bytes_are_the_content': (ev(m, fld('Wasm', 'source').f[0]) == ev(m, k['content_id'])) if which == 'wasm' else None}
    # natively rebuildable: media types an extension can express, ordinary schemes, a decodable text, an attribute kind with a name
    real = [And(mt != MT.index(x) for x in ('Html', 'Sql')), z3.Or([scheme == SCHEMES.index(x) for x in ('file', 'https', 'http')]), k['decode_ok'],
            z3.Or(z3.Not(k['has_attr']), k['attr'] != len(ATTR_KINDS) - 1), z3.Implies(mt == MT.index('Wasm'), z3.Not(k['has_cs']))]
    kw = dict(ops=[Op()], world=W(), realizable=real)
    if part == 'op-only': return eng, None, [], [Query('op', FALSE, **kw)]
    qs = [Query('no-panic', Or(g for _, g in eng.panics), **kw),
          Query('first-poll-completes', z3.Not(k['ready']))]
    for fname in sorted({f for f, _ in eng.exceeded}): qs.append(Query('unwinding:' + fname.split('>::')[-1], Or(g for f, g in eng.exceeded if f == fname), kind='unwind'))
    okText = OR(k['okJson'], k['okJs'])
    def src(var): return fld(var, 'source')
    tix, kix = st['ModuleTextSource'].index('text'), st['ModuleTextSource'].index('decoded_kind')
    if part == 'forwarding':
        wrong_cs = Or([z3.And(g, z3.Not(k['has_cs'])) if (isinstance(cs, SymStr) and cs.tag == 'header-charset') else z3.And(g, k['has_cs']) if (isinstance(cs, SymStr) and cs.tag == 'detected-charset') else g
                       for g, cs in dcalls])
        qs.append(Query('decoder-gets-the-header-charset-when-given-else-the-detected-one', wrong_cs, **kw))
        wrong_bytes = Or(z3.And(g, z3.Not(isinstance(b, Agg) and len(b.f) == 1 and b.f[0] is k['content_id']) if not (isinstance(b, Agg) and z3.is_bv(b.f[0])) else b.f[0] != k['content_id']) for g, b in k['decode_bytes'])
        qs.append(Query('decoder-gets-exactly-the-loaded-bytes', wrong_bytes, **kw))
        once = z3.Or(z3.Not(decoded), Or(z3.And(dcalls[i][0], dcalls[j][0]) for i in range(len(dcalls)) for j in range(i + 1, len(dcalls))))
        qs.append(Query('a-text-module-is-decoded-exactly-once', z3.And(okText, once), **kw))
        bad_store = []
        for var, ok in (('Json', k['okJson']), ('Js', k['okJs'])):
            s_ = src(var); t_, kd = s_.f[tix], s_.f[kix]
            bad_store.append(z3.And(ok, z3.Or(z3.Not(k['decode_ok']), t_.len != eng.cfg['decoded_len'], kd.tag != eng.cfg['decoded_kind'])))
        qs.append(Query('stored-source-is-exactly-the-decoders-text-and-kind', Or(bad_store), **kw))
        qs.append(Query('undecodable-input-is-an-error-not-a-module', z3.And(decoded, z3.Not(k['decode_ok']), z3.Not(k['is_err']))))
        qs.append(Query('wasm-module-keeps-exactly-the-loaded-bytes', z3.And(k['okWasm'], fld('Wasm', 'source').f[0] != k['content_id']), **kw))
        bad_mtime = []
        for var, ok in (('Json', k['okJson']), ('Js', k['okJs']), ('Wasm', k['okWasm'])):
            mv = fld(var, 'mtime')
            bad_mtime.append(z3.And(ok, z3.Or(mv.is_variant(1) != k['has_mtime'], z3.And(k['has_mtime'], mv.vars[1].f[0].f[0] != k['mtime_v']))))
        qs.append(Query('mtime-is-forwarded-unchanged', Or(bad_mtime), **kw))
        qs.append(Query('witness-json-decoded-under-the-header-charset', z3.And(k['okJson'], hdr_used), expect='sat', kind='witness', **kw))
        qs.append(Query('witness-js-decoded-under-the-header-charset', z3.And(k['okJs'], hdr_used), expect='sat', kind='witness', **kw))
        qs.append(Query('witness-js-decoded-under-the-detected-charset', z3.And(k['okJs'], z3.Not(hdr_used)), expect='sat', kind='witness', **kw))
        qs.append(Query('witness-decode-error', z3.And(decoded, z3.Not(k['decode_ok'])), expect='sat', kind='witness'))
    else:
        js_family = Or(mt == MT.index(x) for x in JS_FAMILY)
        exp_mt = z3.If(z3.And(k['is_root'], mt == MT.index('Unknown')), mtv('JavaScript'), mt)
        rec_mt = fld('Js', 'media_type').tag
        qs.append(Query('js-module-records-the-resolved-media-type', z3.And(k['okJs'], z3.Or(rec_mt != exp_mt, z3.Not(Or(rec_mt == MT.index(x) for x in JS_FAMILY)))), **kw))
        qs.append(Query('json-and-wasm-modules-only-for-those-media-types', z3.Or(z3.And(k['okJson'], mt != MT.index('Json')), z3.And(k['okWasm'], mt != MT.index('Wasm'))), **kw))
        # the analyzer is consulted about exactly what is stored: the decoded text under the recorded media type; the generated d.mts text for Wasm
        bad_an = []
        for g, text, media in k['analyze_calls']:
            if isinstance(text, TextLenV): bad_an.append(z3.And(g, k['okJs'], z3.Or(text.len != eng.cfg['decoded_len'], media.tag != rec_mt)))
            elif isinstance(text, SymStr) and text.tag == 'wasm dts': bad_an.append(z3.And(g, z3.Or(media.tag != MT.index('Dmts'), z3.Not(k['wasm_ok']))))
            else: bad_an.append(g)
        qs.append(Query('analyzer-sees-the-stored-text-under-the-recorded-media-type', Or(bad_an), **kw))
        analyzed = Or(g for g, _, _ in k['analyze_calls'])
        qs.append(Query('js-and-wasm-modules-are-analyzed-exactly-once', z3.Or(z3.And(z3.Or(k['okJs'], k['okWasm']), z3.Not(analyzed)), z3.And(k['okJson'], analyzed),
                        Or(z3.And(k['analyze_calls'][i][0], k['analyze_calls'][j][0]) for i in range(len(k['analyze_calls'])) for j in range(i + 1, len(k['analyze_calls'])))), **kw))
        qs.append(Query('analyzer-or-wasm-failure-is-an-error-not-a-module', z3.And(z3.Or(z3.And(analyzed, z3.Not(k['an_ok'])), z3.And(mt == MT.index('Wasm'), z3.Not(k['wasm_ok']))), k['is_ok']), **kw))
        spec_bad = Or(z3.And(ok, fld(var, 'specifier').id != 0) for var, ok in (('Json', k['okJson']), ('Js', k['okJs']), ('Wasm', k['okWasm'])))
        qs.append(Query('module-keeps-the-requested-specifier', spec_bad, **kw))
        # completeness (nothing reachable is absent): a decodable, analyzable module of the expected class is produced
        no_attr_no_spr = z3.And(z3.Not(k['has_attr']), z3.Not(k['has_spr']))
        js_expected = z3.And(js_family, no_attr_no_spr, k['decode_ok'], k['an_ok'], z3.Or(scheme == SCHEMES.index('file'), z3.And(mt != MT.index('Cjs'), mt != MT.index('Cts'))))
        qs.append(Query('a-js-family-module-becomes-a-js-module', z3.And(js_expected, z3.Not(k['okJs'])), **kw))
        json_expected = z3.And(mt == MT.index('Json'), k['has_attr'], k['attr'] == ATTR_KINDS.index('json'), z3.Not(k['has_spr']), k['decode_ok'])
        qs.append(Query('json-imported-with-type-json-becomes-a-json-module', z3.And(json_expected, z3.Not(k['okJson'])), **kw))
        wasm_expected = z3.And(mt == MT.index('Wasm'), z3.Not(k['has_attr']), k['wasm_ok'], k['an_ok'])
        qs.append(Query('a-wasm-module-becomes-a-wasm-module', z3.And(wasm_expected, z3.Not(k['okWasm'])), **kw))
        qs.append(Query('witness-unknown-root-is-javascript', z3.And(k['okJs'], mt == MT.index('Unknown')), expect='sat', kind='witness', **kw))
        qs.append(Query('witness-json-module', k['okJson'], expect='sat', kind='witness', **kw))
        qs.append(Query('witness-wasm-module', k['okWasm'], expect='sat', kind='witness', **kw))
        qs.append(Query('witness-error', k['is_err'], expect='sat', kind='witness', **kw))
    base = list(k['sym'].cons) + [z3.Implies(k['has_cs'], k['has_headers'])]
    return eng, None, base, qs

def differential(mir, seed, count):
    """encoder validation: concrete option records through the interpreter and through the real parse_module_source_and_info (hook)"""
    import random, time
    from ..harness import run_replay
    rng = random.Random(7000 + seed)
    s = z3.Solver(); s.check(); M0 = s.model()
    MT = mir.enums['MediaType']; t0 = time.time(); bad, examples = 0, []
    import mirsym.props.pmsi as me
    orig = me.Sym
    for c in range(count):
        rb = lambda p=0.5: rng.random() < p
        has_headers = rb()
        m = rng.choice([x for x in MT if x not in ('Html', 'Sql')])
        pin = {'specifier_scheme': SCHEMES.index(rng.choice(['file', 'https', 'http'])), 'resolved_media_type': MT.index(m), 'has_headers': has_headers,
               'header_charset_given': has_headers and m != 'Wasm' and rb(), 'has_mtime': rb(), 'mtime': 5, 'has_attribute': rb(0.4), 'attribute_kind': rng.randrange(len(ATTR_KINDS) - 1),
               'has_referrer': rb(), 'has_source_phase_referrer': rb(0.2), 'is_root': rb(0.3), 'is_dynamic_branch': rb(0.3), 'unstable_config_imports': rb(),
               'content_id': 1, 'analyzer_ok': rb(0.8), 'wasm_to_dts_ok': rb(0.7), 'decode_result': 0, 'decoded_len': 2, 'decoded_kind': 0}
        try:
            me.Sym = lambda: orig(pin)
            eng, _, base, qs = queries(build(mir, {}), 'op-only')
        finally:
            me.Sym = orig
        op = [q for q in qs if q.ops][0].ops[0]
        oj, dec = op.op_json(M0), op.decode(M0)
        real = run_replay({'world': {'positions': True}, 'ops': [oj]}, fast_check=False)['outputs'][0]
        if dec != real:
            bad += 1
            if len(examples) < 3: examples.append({'op': oj, 'interpreter': dec, 'real': real})
    return {'cases': count, 'operations_compared': count, 'mismatches': bad, 'examples': examples, 'seconds': round(time.time() - t0, 1), 'seed': seed}
