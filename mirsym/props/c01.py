"""C01 (partial: second sentence only) — a module's recorded dependencies match what its source declares under the resolver in use.

Kernel: fill_module_dependencies executed from MIR on an arbitrary sequence of <=K dependency descriptors over <=2 specifier
texts (all static / dynamic kinds, optional @deno-types specifier, side-effect flag, optional `type` attribute), every graph kind
and JS/TS/declaration/Wasm media type, with the resolver as the environment: an arbitrary function
(text, resolution kind, attribute type) -> Ok(target) | Err. Decided: one entry per specifier text in first-occurrence order;
the code target is the resolver's answer for the first code import (with the attribute type known at that point); is_dynamic is
the conjunction over code imports (static wins); the attribute type is that of the first import carrying one; code-only graphs
record no type data and ignore type-only descriptors; a recorded type target is always one of the resolver's answers.
NOT covered: the first sentence (which modules a BUILD contains — async builder), template-literal dynamic imports,
media-type dispatch, pragmas, and which resolver answer is chosen as the type target in type-including graphs."""
import z3, re
from ..engine import *
from ..models import *
from ..world import Sym
from ..oracle import Or, And
from ..harness import Query

ID = 'C01'
QUERY_SLICES = 4      # each obligation costs ~45 s of solver time at K=2: spread them over the cores
ASSUMPTIONS = [
    'graph::resolve / resolve_with_attribute_type are the environment: an arbitrary function of (text, kind, attribute type); ImportAttributes::get is an arbitrary per-descriptor lookup of the `type` attribute',
    'dynamic import arguments are string literals or non-analysable expressions (template literals, which consult the file system, are outside)',
    'native replay goes through the public parse_module with a custom ModuleAnalyzer (arbitrary descriptors) and a table-driven Resolver; Wasm media type has no replay',
]
T, TS, U, A = 2, 2, 3, 2          # specifier texts, @deno-types texts, resolution targets, attribute values
MCLASS = {'untyped': ['JavaScript', 'Jsx', 'Mjs', 'Cjs'], 'typed': ['TypeScript', 'Mts', 'Cts', 'Tsx'], 'declaration': ['Dts', 'Dmts', 'Dcts'], 'wasm': ['Wasm']}
SK = ['Import', 'ImportDefer', 'ImportSource', 'ImportType', 'ImportEquals', 'Export', 'ExportType', 'ExportEquals', 'MaybeTsModuleAugmentation']

class AttrV:
    """ImportAttributes of descriptor `idx` (only looked at through the `get` stub)"""
    def __init__(self, idx): self.idx = idx
    def merge(self, g, o): return AttrV(IF(g, self.idx, o.idx))

def cubes(tier, has_fc):
    edges = [{'parse': True}, {'load': True, 'N': 3 if tier == 'quick' else 5}, {'tryload': True, 'asset': False, 'from': 'try_load', 'c01': True}, {'tryload': True, 'asset': True, 'from': 'try_load', 'c01': True}] + [{'edges': True, 'gk': gk, 'Dn': 2 if tier == 'quick' else 3} for gk in range(3)]
    if tier == 'quick': return edges + [{'K': 2, 'gk': gk, 'mclass': mc} for gk in (0, 1) for mc in ('untyped', 'declaration')] + [{'K': 2, 'gk': 2, 'mclass': 'typed'}]
    return edges + [{'K': 2, 'gk': gk, 'mclass': mc} for gk in range(3) for mc in MCLASS] + [{'K': 3, 'gk': gk, 'mclass': mc} for gk in (0, 1) for mc in ('untyped', 'typed')]
def cube_name(c): return ('redirect_answer_' + ('asset' if c['asset'] else 'module')) if c.get('tryload') else 'parse_dispatch' if c.get('parse') else f"load_request_N{c['N']}" if c.get('load') else f"edges_D{c['Dn']}_g{c['gk']}" if c.get('edges') else f"K{c['K']}_g{c['gk']}_{c.get('mclass', 'any')}"

def build_edges(mir, cube):
    """Builder::visit_module_dependencies: which recorded dependency edges the builder asks the loader for (Builder::load is a
    recording stub), which it defers as dynamic branches, and which resolutions it clears, per graph kind / skip_dynamic_deps /
    in_dynamic_branch. Oracle (GraphKind docs): code edges are followed when code is included, or when the dependency has no
    separate type resolution (its code is what provides the types); type edges when types are included; dynamic dependencies are
    skipped entirely with skip_dynamic_deps, deferred outside a dynamic branch, loaded directly inside one."""
    Dn = cube['Dn']; UU = 3
    sym = Sym()
    st = dict(mir.structs)
    eng = Engine(mir, usize_bits=8, unroll=Dn + 2)
    gk = BV(cube['gk'], 8); inc_code = cube['gk'] != 2; inc_types = cube['gk'] != 1
    skip_dyn = sym.bool('skip_dynamic_deps'); in_dyn = sym.bool('in_dynamic_branch')
    loads = []
    def stub_load(e, c, a, g):
        o = a[1]
        sp = uid(e, o.f[st['LoadOptionsRef'].index('specifier')])
        loads.append((g, sp, o.f[st['LoadOptionsRef'].index('in_dynamic_branch')])); return UNIT
    eng.cfg.update(N=UU, VEC=2, stubs=[(re.compile(r'Builder::<.*>::load'), stub_load)])
    deps, info = [], []
    for d in range(Dn):
        ck = sym.bv(f'e{d}_code_kind', 8, lt=3); ct = sym.bv(f'e{d}_code_target', 8, lt=UU)
        tk = sym.bv(f'e{d}_type_kind', 8, lt=3); tt = sym.bv(f'e{d}_type_target', 8, lt=UU)
        dyn = sym.bool(f'e{d}_dynamic'); p = sym.bool(f'e{d}_present')
        def resv(k, t):
            rng = Agg([{'specifier': UrlV(BV(0, 8)), 'range': O, 'resolution_mode': O}[f] for f in st['Range']])
            rerr = mir.enums['ResolutionError'].index('ResolverError')
            return EnumV(k, {0: Agg([]), 1: Agg([BoxV(Agg([{'specifier': UrlV(t), 'range': rng}[f] for f in st['ResolutionResolved']]))]), 2: Agg([BoxV(EnumV(rerr, {rerr: Agg([O, O, rng])}))])})
        deps.append(Agg([{'maybe_code': resv(ck, ct), 'maybe_type': resv(tk, tt), 'is_dynamic': dyn, 'maybe_attribute_type': none(), 'maybe_deno_types_specifier': none(), 'imports': VecModel([None, None], BV(0, 8))}[f] for f in st['Dependency']]))
        info.append({'p': p, 'ck': ck, 'ct': ct, 'tk': tk, 'tt': tt, 'dyn': dyn})
    depmap = Root(SlotMap([i['p'] for i in info], [TextV(BV(d, 8)) for d in range(Dn)], deps), 'deps')
    graph = Agg([{'graph_kind': EnumV(gk, {})}.get(f, O) for f in st['ModuleGraph']])
    state = Agg([{'dynamic_branches': MapModel.empty(UU)}.get(f, O) for f in st['PendingState']])
    builder = Agg([{'in_dynamic_branch': in_dyn, 'skip_dynamic_deps': skip_dyn, 'graph': ref_to(graph, 'graph'), 'state': state, 'resolved_roots': SetModel([FALSE] * UU, BV(0, 8))}.get(f, O) for f in st['Builder']])
    broot = Root(builder, 'builder')
    eng.call(mir.find('Builder', 'visit_module_dependencies'), [Ptr([(TRUE, (broot, ()))]), Ptr([(TRUE, (depmap, ()))]), none()], TRUE)
    branches = broot.val.f[st['Builder'].index('state')].f[st['PendingState'].index('dynamic_branches')]
    out = depmap.val
    def loaded(u, dynflag=None): return Or(z3.And(g, sp == u) for g, sp, f in loads)
    bad_load, bad_defer, bad_clear = [], [], []
    for u in range(UU):
        want_now, want_defer = [], []
        for i in info:
            active = z3.And(i['p'], z3.Not(z3.And(i['dyn'], skip_dyn)))
            code_follow = z3.And(active, i['ck'] == 1, i['ct'] == u, z3.Or(inc_code, i['tk'] == 0))
            type_follow = z3.And(active, inc_types, i['tk'] == 1, i['tt'] == u)
            deferred = z3.And(i['dyn'], z3.Not(in_dyn))
            want_now += [z3.And(code_follow, z3.Not(deferred)), z3.And(type_follow, z3.Not(deferred))]
            want_defer += [z3.And(code_follow, deferred), z3.And(type_follow, deferred)]
        bad_load.append(loaded(u) != Or(want_now))
        bad_defer.append(branches.present[u] != Or(want_defer))
    for d, i in enumerate(info):
        dep = out.vals[d]
        ck2 = dep.f[st['Dependency'].index('maybe_code')].tag; tk2 = dep.f[st['Dependency'].index('maybe_type')].tag
        active = z3.And(i['p'], z3.Not(z3.And(i['dyn'], skip_dyn)))
        exp_ck = z3.If(z3.And(active, z3.Not(z3.Or(inc_code, i['tk'] == 0))), z3.BitVecVal(0, 8), i['ck'])
        exp_tk = z3.If(z3.And(active, not inc_types), z3.BitVecVal(0, 8), i['tk'])
        bad_clear.append(z3.And(i['p'], z3.Or(ck2 != exp_ck, tk2 != exp_tk)))
    def describe(m):
        def ev(x):
            v = m.eval(x, model_completion=True); return z3.is_true(v) if z3.is_bool(v) else v.as_long()
        return {'graph_kind': cube['gk'], 'skip_dynamic_deps': ev(skip_dyn), 'in_dynamic_branch': ev(in_dyn),
                'dependencies': [{k: ev(v) for k, v in i.items()} for i in info], 'loads': [ev(sp) for g, sp, f in loads if ev(g)], 'deferred': [u for u in range(UU) if ev(branches.present[u])]}
    # native replay: a real build of one root whose dependency records are dictated through a custom analyzer and resolver
    def evm(m, x):
        v = m.eval(x, model_completion=True); return z3.is_true(v) if z3.is_bool(v) else v.as_long()
    class World:
        def to_json(self, m):
            return {'fill_deps': True, 'edges': True, 'graph_kind': cube['gk'], 'skip_dynamic_deps': evm(m, skip_dyn), 'in_dynamic_branch': evm(m, in_dyn),
                    'deps': [{k: evm(m, v) for k, v in i.items()} for i in info]}
    class OpEdges:
        def op_json(self, m): return {'op': 'build'}
        def decode(self, m):
            req = sorted({u for u in range(UU) if evm(m, loaded(u)) or evm(m, branches.present[u])})
            recs = {}
            for d, i in enumerate(info):
                if not evm(m, i['p']): continue
                dep = out.vals[d]
                recs[f'./e{d}'] = [evm(m, dep.f[st['Dependency'].index('maybe_code')].tag), evm(m, dep.f[st['Dependency'].index('maybe_type')].tag)]
            return {'requested': req, 'records': recs}
    # what a build can produce as a dependency record: something is resolved; dynamic imports are code imports; code-only graphs have
    # no type resolutions; distinct dependencies point at distinct targets (otherwise another edge could load the same module)
    realizable = []
    for i in info:
        realizable += [z3.Implies(i['p'], z3.Not(z3.And(i['ck'] == 0, i['tk'] == 0))), z3.Implies(i['dyn'], i['ck'] != 0)]
        if not inc_types: realizable.append(i['tk'] == 0)
        if not inc_code: realizable.append(z3.Implies(z3.And(i['p'], i['ck'] == 0), i['tk'] != 0))
    world, ope = World(), OpEdges()
    qs = [Query('loader-is-asked-exactly-for-the-edges-the-graph-kind-and-options-select', Or(bad_load), describe=describe),
          Query('dynamic-edges-outside-a-dynamic-branch-are-deferred-not-dropped', Or(bad_defer), describe=describe),
          Query('resolutions-not-followed-for-the-graph-kind-are-cleared-others-untouched', Or(bad_clear), describe=describe),
          Query('load-keeps-the-dynamic-branch-flag', Or(z3.And(g, f != in_dyn) for g, sp, f in loads), describe=describe),
          Query('witness-load-and-defer', z3.And(Or(g for g, sp, f in loads), Or(branches.present)), expect='sat', kind='witness')]
    for q in qs: q.world, q.ops, q.realizable = world, [ope], realizable
    for fname in sorted({f for f, _ in eng.exceeded}):
        qs.insert(0, Query('unwinding:' + fname.split('>::')[-1], Or(gd for f, gd in eng.exceeded if f == fname), kind='unwind'))
    qs.insert(0, Query('model-capacity', Or(gd for _, gd in eng.obligations), kind='obligation'))
    qs.insert(0, Query('no-panic', Or(gd for _, gd in eng.panics)))
    world.has_fc = True       # the replay needs the swc-enabled binary (default module analyzer for the non-root modules is bypassed, but BuildOptions::default needs it)
    return eng, world, list(sym.cons), qs

def build(mir, cube):
    if cube.get('parse'):
        from . import pmsi
        return pmsi.queries(pmsi.build(mir, cube), 'dispatch')
    if cube.get('tryload'):
        from . import c05
        return c05.build(mir, cube)
    if cube.get('load'):
        from . import loadk
        return loadk.queries(loadk.build(mir, cube))
    if cube.get('edges'): return build_edges(mir, cube)
    K = cube['K']
    sym = Sym()
    st, en = dict(mir.structs), mir.enums
    for n in ('StaticDependencyDescriptor', 'DynamicDependencyDescriptor'): st[n] = mir.qualified[('src/analysis.rs', n)]
    assert en['StaticDependencyKind'] == SK, 'StaticDependencyKind changed: update the oracle'
    eng = Engine(mir, usize_bits=8, unroll=8 * K + 8)
    MT = en['MediaType']
    media = MCLASS[cube['mclass']] if cube.get('mclass') else sum(MCLASS.values(), [])
    mt = sym.bv('media_type', 8, among=[MT.index(x) for x in media])
    gk = BV(cube['gk'], 8)
    include_types = cube['gk'] != 1
    is_decl = Or(mt == MT.index(x) for x in ['Dts', 'Dmts', 'Dcts'])
    is_typed = Or(mt == MT.index(x) for x in ['TypeScript', 'Mts', 'Cts', 'Dts', 'Dmts', 'Dcts', 'Tsx', 'Wasm'])
    # ---- resolver environment
    NTX = T + TS
    rk = {(t, k, a): sym.bv(f'res_t{t}_k{k}_a{a}_kind', 8, among=[1, 2]) for t in range(NTX) for k in range(2) for a in range(A + 1)}
    rt = {(t, k, a): sym.bv(f'res_t{t}_k{k}_a{a}_target', 8, lt=U) for t in range(NTX) for k in range(2) for a in range(A + 1)}
    def lookup(tbl, t, k, a, w=8):
        v = BV(0, w)
        for (tt, kk, aa), x in tbl.items(): v = IF(AND(EQ(t, BV(tt, 8)), EQ(k, BV(kk, 8)), EQ(a, BV(aa, 8))), x, v)
        return v
    def resolution_value(t, k, a):
        kind, target = lookup(rk, t, k, a), lookup(rt, t, k, a)
        rng = Agg([{'specifier': UrlV(BV(0, 8)), 'range': O, 'resolution_mode': O}[f] for f in st['Range']])
        ok = BoxV(Agg([{'specifier': UrlV(target), 'range': rng}[f] for f in st['ResolutionResolved']]))
        rerr = en['ResolutionError'].index('ResolverError')
        return EnumV(kind, {0: Agg([]), 1: Agg([ok]), 2: Agg([BoxV(EnumV(rerr, {rerr: Agg([O, O, rng])}))])})
    def text_of(x):
        v = x
        while isinstance(v, Ptr): v = eng.load(v)
        if not isinstance(v, TextV): raise Unsupported(f'resolver called with non-text {v!r}')
        return v.id
    def kind_of(x): return x.tag if isinstance(x, EnumV) else x
    def stub_resolve(e, c, a, g): return resolution_value(text_of(a[0]), kind_of(a[2]), BV(0, 8))
    def stub_resolve_attr(e, c, a, g):
        at = a[3]; some = opt_is_some(at); p = opt_payload(at)
        aid = IF(some, ADD(text_of(p), 1), BV(0, 8)) if p is not None else BV(0, 8)      # attribute texts are TextV(0..A-1)
        return resolution_value(text_of(a[0]), kind_of(a[2]), aid)
    attr_p = [sym.bool(f'd{k}_has_type_attr') for k in range(K)]; attr_v = [sym.bv(f'd{k}_type_attr', 8, lt=A) for k in range(K)]
    def stub_attr_get(e, c, a, g):
        at = a[0]
        while isinstance(at, Ptr): at = e.load(at)
        key = a[1]
        while isinstance(key, Ptr): key = e.load(key)
        if not isinstance(at, AttrV): raise Unsupported(f'ImportAttributes::get on {at!r}')
        if not (isinstance(key, StrV) and key.s == 'type'): return none()
        p, v = FALSE, BV(0, 8)
        for k in range(K): p = IF(EQ(at.idx, BV(k, 8)), attr_p[k], p); v = IF(EQ(at.idx, BV(k, 8)), attr_v[k], v)
        return opt(p, ref_to(TextV(v), 'attr'))
    eng.cfg.update(N=U, VEC=K + 1, scheme=[BV(2, 8)] * U, stubs=[(re.compile(r'resolve_with_attribute_type'), stub_resolve_attr), (re.compile(r'resolve'), stub_resolve),
                                                              (re.compile(r'ImportAttributes::get'), stub_attr_get), (re.compile(r'analyze_dynamic_arg_template_parts'), lambda e, c, a, g: VecModel([None] * (K + 1), BV(0, 8))), (re.compile(r'<ImportAttributes as Clone>::clone'), lambda e, c, a, g: e.load(a[0]))])
    # ---- descriptors
    D = []
    items = []
    for k in range(K):
        d = {'static': sym.bool(f'd{k}_static'), 'skind': sym.bv(f'd{k}_skind', 8, lt=len(SK)), 'dkind': sym.bv(f'd{k}_dkind', 8, lt=4), 'text': sym.bv(f'd{k}_text', 8, lt=T),
             'is_string': sym.bool(f'd{k}_arg_is_string'), 'has_ts': sym.bool(f'd{k}_has_deno_types'), 'ts': sym.bv(f'd{k}_deno_types_text', 8, lt=TS), 'side': sym.bool(f'd{k}_side_effect')}
        D.append(d)
        tsv = opt(d['has_ts'], Agg([{'text': TextV(ADD(d['ts'], T)), 'range': O}[f] for f in st['SpecifierWithRange']]))
        sd = Agg([{'kind': EnumV(d['skind'], {}), 'types_specifier': tsv, 'specifier': TextV(d['text']), 'specifier_range': O, 'is_side_effect': d['side'], 'import_attributes': AttrV(BV(k, 8))}[f] for f in st['StaticDependencyDescriptor']])
        arg = EnumV(IF(d['is_string'], BV(0, 8), BV(2, 8)), {0: Agg([TextV(d['text'])]), 1: Agg([O]), 2: Agg([])})
        dd = Agg([{'kind': EnumV(d['dkind'], {}), 'types_specifier': tsv, 'argument': arg, 'argument_range': O, 'import_attributes': AttrV(BV(k, 8))}[f] for f in st['DynamicDependencyDescriptor']])
        items.append(EnumV(IF(d['static'], BV(0, 8), BV(1, 8)), {0: Agg([sd]), 1: Agg([dd])}))
    deps_root = Root(SlotMap.empty(T), 'module-dependencies')
    name = mir.index[(None, None, 'fill_module_dependencies')]
    eng.call(name, [EnumV(gk, {}), EnumV(mt, {}), VecModel(items + [None], BV(K, 8)), ref_to(UrlV(BV(0, 8)), 'specifier'), Ptr([(TRUE, (deps_root, ()))]), Opaque('fs'), Opaque('jsr'), none()], TRUE)
    out = deps_root.val
    # ---- output accessors
    def fld(dep, n): return dep.f[st['Dependency'].index(n)]
    def res_fields(r):
        t = BV(0, 8)
        ok = r.vars.get(1)
        if ok and ok.f and ok.f[0] is not None:
            rr = ok.f[0].val if isinstance(ok.f[0], BoxV) else ok.f[0]
            sp = rr.f[st['ResolutionResolved'].index('specifier')]
            if isinstance(sp, UrlV): t = sp.id
        return r.tag, t
    slots = []
    for i in range(T):
        dep = out.vals[i]
        if dep is None: slots.append(None); continue
        ck, ct = res_fields(fld(dep, 'maybe_code')); tk, tt = res_fields(fld(dep, 'maybe_type'))
        at = fld(dep, 'maybe_attribute_type'); atp = opt_is_some(at); atv = opt_payload(at)
        while isinstance(atv, Ptr): atv = eng.load(atv)
        dts = fld(dep, 'maybe_deno_types_specifier')
        imps = fld(dep, 'imports')
        slots.append({'p': out.present[i], 'key': out.keys[i].id if out.keys[i] is not None else BV(255, 8), 'ck': ck, 'ct': ct, 'tk': tk, 'tt': tt, 'dyn': fld(dep, 'is_dynamic'),
                      'atp': atp, 'atv': atv.id if isinstance(atv, TextV) else BV(0, 8), 'dts': opt_is_some(dts) if isinstance(dts, EnumV) else FALSE, 'nimports': imps.len if isinstance(imps, VecModel) else BV(0, 8)})
    # ---- oracle (statement): fold over the descriptors in order
    tyish = lambda d: z3.Or(d['skind'] == 3, d['skind'] == 6, d['skind'] == 8)
    produces = [z3.If(d['static'], z3.Not(z3.And(tyish(d), not include_types)), d['is_string']) for d in D]
    is_code = [z3.And(produces[k], z3.Or(z3.Not(D[k]['static']), z3.Not(tyish(D[k]))), z3.Not(is_decl)) for k in range(K)]
    exp = []
    for t in range(T):
        mine = [z3.And(produces[k], D[k]['text'] == t) for k in range(K)]
        exists = Or(mine)
        first = [z3.And(mine[k], z3.Not(Or(mine[:k]))) for k in range(K)]
        # attribute type: the first import of t that carries one
        has_attr = [z3.And(mine[k], attr_p[k]) for k in range(K)]
        attr_exists = Or(has_attr)
        attr_val = z3.BitVecVal(0, 8)
        for k in reversed(range(K)): attr_val = z3.If(has_attr[k], attr_v[k], attr_val)
        code_imps = [z3.And(is_code[k], D[k]['text'] == t) for k in range(K)]
        has_code = Or(code_imps)
        dyn = z3.And(has_code, And(z3.Implies(code_imps[k], z3.Not(D[k]['static'])) for k in range(K)))
        # attribute known when the first code import is processed: the first attribute among imports up to and including it
        ck, ct = z3.BitVecVal(0, 8), z3.BitVecVal(0, 8)
        for k in reversed(range(K)):
            firstcode = z3.And(code_imps[k], z3.Not(Or(code_imps[:k])))
            known = Or(has_attr[:k + 1]); kv = z3.BitVecVal(0, 8)
            for j in reversed(range(k + 1)): kv = z3.If(has_attr[j], attr_v[j], kv)
            aid = z3.If(known, kv + 1, z3.BitVecVal(0, 8))
            kk, tg = z3.BitVecVal(0, 8), z3.BitVecVal(0, 8)
            for a in range(A + 1): kk = z3.If(aid == a, rk[(t, 0, a)], kk); tg = z3.If(aid == a, rt[(t, 0, a)], tg)
            ck = z3.If(firstcode, kk, ck); ct = z3.If(firstcode, tg, ct)
        order = z3.Sum([z3.If(Or(z3.And(produces[j], D[j]['text'] == o, z3.Not(Or(z3.And(produces[i], D[i]['text'] == o) for i in range(j))), Or(first[k2] for k2 in range(j + 1, K))) for j in range(K)), 1, 0) for o in range(T) if o != t])
        exp.append({'exists': exists, 'attr_exists': attr_exists, 'attr_val': attr_val, 'has_code': has_code, 'dyn': dyn, 'ck': ck, 'ct': ct, 'rank': order})
    def slot_for(t): return [(z3.And(s['p'], s['key'] == t), s) for s in slots if s is not None]
    bad_entries, bad_code, bad_dyn, bad_attr, bad_type, bad_order = [], [], [], [], [], []
    removed_ok = lambda t: z3.And(is_typed, True)        # entries may be removed by the augmentation clean-up only in typed media
    for t in range(T):
        e = exp[t]
        present = Or(c for c, s in slot_for(t))
        # an entry exists only for declared texts; a declared text has an entry unless the module-augmentation clean-up removed it
        bad_entries.append(z3.And(present, z3.Not(e['exists'])))
        aug_only = z3.And(e['exists'], z3.Not(e['has_code']), And(z3.Implies(z3.And(produces[k], D[k]['text'] == t), z3.And(D[k]['static'], D[k]['skind'] == 8)) for k in range(K)))
        bad_entries.append(z3.And(e['exists'], z3.Not(present), z3.Not(z3.And(is_typed, aug_only))))
        for c, s in slot_for(t):
            bad_code.append(z3.And(c, z3.Or(s['ck'] != e['ck'], z3.And(s['ck'] == 1, s['ct'] != e['ct']))))
            bad_dyn.append(z3.And(c, s['dyn'] != e['dyn']))
            bad_attr.append(z3.And(c, z3.Or(s['atp'] != e['attr_exists'], z3.And(s['atp'], s['atv'] != e['attr_val']))))
            if not include_types: bad_type.append(z3.And(c, z3.Or(s['tk'] != 0, s['dts'])))
            else:
                answers = [z3.And(s['tk'] == rk[(x, 1, a)], z3.Or(s['tk'] != 1, s['tt'] == rt[(x, 1, a)])) for x in [t] + list(range(T, T + TS)) for a in range(A + 1)]
                bad_type.append(z3.And(c, s['tk'] != 0, z3.Not(Or(answers))))
    # one entry per text, in first-occurrence order (slots are filled in insertion order)
    for i, s in enumerate(slots):
        for j, s2 in enumerate(slots):
            if s is None or s2 is None or j <= i: continue
            bad_order.append(z3.And(s['p'], s2['p'], s['key'] == s2['key']))
            for t in range(T):
                for t2 in range(T):
                    if t != t2: bad_order.append(z3.And(s['p'], s2['p'], s['key'] == t, s2['key'] == t2, z3.Not(Or(z3.And(produces[k], D[k]['text'] == t, z3.Not(Or(z3.And(produces[m], D[m]['text'] == t2) for m in range(k)))) for k in range(K)))))
    def describe(m):
        def ev(x):
            v = m.eval(x, model_completion=True)
            return z3.is_true(v) if z3.is_bool(v) else v.as_long()
        ds = [{'static': ev(d['static']), 'skind': SK[ev(d['skind'])], 'text': ev(d['text']), 'arg_is_string': ev(d['is_string']), 'deno_types': ev(d['ts']) if ev(d['has_ts']) else None,
               'type_attr': ev(attr_v[k]) if ev(attr_p[k]) else None, 'side_effect': ev(d['side']), 'produces': ev(produces[k])} for k, d in enumerate(D)]
        outs = [{'text': ev(s_['key']), 'code': (ev(s_['ck']), ev(s_['ct'])), 'type': (ev(s_['tk']), ev(s_['tt'])), 'dyn': ev(s_['dyn']), 'attr': ev(s_['atv']) if ev(s_['atp']) else None, 'nimports': ev(s_['nimports'])} for s_ in slots if s_ is not None and ev(s_['p'])]
        return {'media_type': MT[ev(mt)], 'graph_kind': cube['gk'], 'descriptors': ds, 'recorded': outs, 'expected': [{'exists': ev(e['exists']), 'attr': ev(e['attr_val']) if ev(e['attr_exists']) else None, 'dyn': ev(e['dyn']), 'code': (ev(e['ck']), ev(e['ct']))} for e in exp]}
    qs = [Query('entries-only-for-declared-specifiers-and-none-missing', Or(bad_entries)),
          Query('one-entry-per-specifier-in-first-occurrence-order', Or(bad_order)),
          Query('code-target-is-the-resolvers-answer-for-the-first-code-import', Or(bad_code)),
          Query('is_dynamic-is-the-conjunction-over-code-imports-static-wins', Or(bad_dyn)),
          Query('attribute-type-is-that-of-the-first-import-carrying-one', Or(bad_attr)),
          Query('code-only-graphs-record-no-type-data' if not include_types else 'type-target-is-one-of-the-resolvers-answers', Or(bad_type)),
          (Query('witness-static-and-dynamic-import-of-one-specifier', z3.And(Or(z3.And(s['p'], z3.Not(s['dyn']), s['nimports'] == 2) for s in slots if s is not None), Or(z3.And(z3.Not(D[k]['static']), produces[k]) for k in range(K)), z3.Not(is_decl)), expect='sat', kind='witness')
           if cube.get('mclass') != 'declaration' else
           Query('witness-declaration-file-records-no-code-target', z3.And(Or(z3.And(s['p'], s['ck'] == 0, s['nimports'] == 2) for s in slots if s is not None), include_types), expect='sat' if include_types else 'unsat', kind='witness' if include_types else 'property')),
          Query('witness-two-entries', And(s['p'] for s in slots if s is not None), expect='sat', kind='witness')]
    # ---- native replay through the public API
    def evm(m, x):
        v = m.eval(x, model_completion=True)
        return z3.is_true(v) if z3.is_bool(v) else v.as_long()
    class World:
        def to_json(self, m):
            return {'fill_deps': True, 'nspec': T, 'media_type': MT[evm(m, mt)], 'graph_kind': cube['gk'],
                    'resolver': [[t, k, a, (evm(m, rt[(t, k, a)]) if evm(m, rk[(t, k, a)]) == 1 else None)] for (t, k, a) in rk],
                    'descriptors': [{'static': evm(m, d['static']), 'skind': evm(m, d['skind']), 'dkind': evm(m, d['dkind']), 'text': evm(m, d['text']), 'arg_is_string': evm(m, d['is_string']),
                                     'deno_types': evm(m, d['ts']) if evm(m, d['has_ts']) else None, 'type_attr': evm(m, attr_v[k]) if evm(m, attr_p[k]) else None, 'side_effect': evm(m, d['side'])} for k, d in enumerate(D)]}
    class OpFill:
        def op_json(self, m): return {'op': 'fill'}
        def decode(self, m):
            rec = []
            for s_ in slots:
                if s_ is None or not evm(m, s_['p']): continue
                ck, tk = evm(m, s_['ck']), evm(m, s_['tk'])
                rec.append({'text': f"./s{evm(m, s_['key'])}", 'code': [ck, evm(m, s_['ct']) if ck == 1 else 0], 'type': [tk, evm(m, s_['tt']) if tk == 1 else 0], 'dyn': evm(m, s_['dyn']),
                            'attr': f"a{evm(m, s_['atv'])}" if evm(m, s_['atp']) else None, 'nimports': evm(m, s_['nimports']), 'deno_types': evm(m, s_['dts'])})
            return {'recorded': rec}
    world, opf = World(), OpFill()
    realizable = [mt != MT.index('Wasm')]
    for q in qs:
        q.describe = describe
        # the public-API replay (parse_module) cannot produce a Wasm module from a dictated ModuleInfo: in the wasm cube the witnesses are
        # decided by the solver alone, and a counterexample there would be reported as inconclusive rather than as a violation
        if cube.get('mclass') == 'wasm' and q.kind == 'witness': continue
        q.world = world; q.ops = [opf]; q.realizable = realizable
    for fname in sorted({f for f, _ in eng.exceeded}):
        qs.insert(0, Query('unwinding:' + fname.split('>::')[-1], Or(gd for f, gd in eng.exceeded if f == fname), kind='unwind'))
    qs.insert(0, Query('model-capacity', Or(gd for _, gd in eng.obligations), kind='obligation'))
    qs.insert(0, Query('no-panic', Or(gd for _, gd in eng.panics)))
    return eng, world, list(sym.cons), qs

def differential(mir, seed, count):
    from . import pmsi
    return pmsi.differential(mir, seed, count)
