"""C05 (partial) — known checksums are presented on every load; rejected content never becomes a module; checksummed URLs may not redirect.

Kernel: `try_load`, the `async fn` inside Builder::load_pending_module that performs every loader call of a module load, executed
from the MIR of its coroutine body in one poll. Every future it awaits is environment and completes at its first poll with an
arbitrary result of its type: the registry version-manifest load, Loader::load / Loader::ensure_cached (each call: module |
redirect | external/cached | not found | checksum-integrity error | other error), and the parse step (`handle_success`, whose body
is the subject of the parse_module_source_and_info kernel of C01/C20).
Symbolic: whether a checksum is known on entry (lockfile / embedded version info), whether version info is embedded, whether the
URL points into the registry (a manifest load is pending) and whether that manifest lists the file, asset or module load, all
flags, the redirect count and the loader's limit, and every loader answer.

Decided:
 * every loader call carries exactly the known checksum: the one given on entry, or — for an https URL into the registry — the one
   the version manifest lists for the file; the first call uses the cache, a second call happens only after a checksum-integrity
   error on a non-registry URL, bypasses the cache and carries the same checksum; never more than two calls;
 * after a checksum-integrity error the result is a module only if that single cache-bypassing retry delivered one; otherwise it is
   an integrity error (HttpsChecksumIntegrity, or Jsr/ContentChecksumIntegrity inside a package) — never a module, never silence;
 * a redirect answer is rejected when version info is present (RedirectInPackage) or a checksum is known (HttpsChecksumIntegrity);
 * a manifest that lists the file with an unusable checksum, or a failed manifest load, is an error before any loader call.
The same obligations one and two levels up (Builder::load_pending_module: lockfile checksum of the requested specifier; Builder::
load_jsr_subpath: manifest checksum on the cache-only probe and on the content loads), and Builder::visit: a new remote
non-declaration module gets the digest of its stored bytes recorded exactly once and never over an existing lockfile entry; a
deferred content load carries the manifest checksum."""
import z3, re
from ..engine import *
from ..models import *
from ..world import Sym
from ..oracle import Or, And
from ..harness import Query
from ..ops import ev

ID = 'C05'
ASSUMPTIONS = [
    'every awaited future (Loader::load, Loader::ensure_cached, the registry version-manifest load, the parse step) completes at its first poll with an arbitrary result of its type: suspension only saves and restores locals (compiler-generated), the decisions are the straight-line code between awaits',
    'the Loader, JsrUrlProvider and the manifest accessors (get_subpath / get_checksum) are the environment; the locker lookup in load_pending_module and the JSR sub-path loads (load_jsr_subpath) are outside this kernel',
    'checksums and contents are identified by tokens (equality is all the code uses)',
]
RESP = ['Module', 'Redirect', 'External', 'NotFound', 'ChecksumError', 'OtherError']     # External doubles as Cached for ensure_cached

def cubes(tier, has_fc): return [{'asset': a, 'from': f} for f in ('try_load', 'pending') for a in (False, True)] + [{'asset': False, 'from': 'jsr', 'info': True}, {'asset': False, 'from': 'jsr', 'info': False}, {'asset': True, 'from': 'jsr', 'info': True}]
def cube_name(c): return ({'pending': 'load_pending_', 'jsr': 'load_jsr_subpath_'}.get(c.get('from'), 'try_load_')) + ('asset' if c['asset'] else 'module') + (('_with_embedded_info' if c['info'] else '_without_embedded_info') if c.get('from') == 'jsr' else '')

def build(mir, cube):
    sym = Sym()
    st, en = dict(mir.structs), mir.enums
    eng = Engine(mir, usize_bits=8, unroll=4)
    eng.cfg['N'] = 3; eng.cfg['scheme'] = [sym.bv(f'scheme{u}', 8, lt=len(SCHEMES)) for u in range(3)]
    is_asset = z3.BoolVal(cube['asset'])
    is_root, in_dyn, was_dyn_root, cfg_imports = sym.bool('is_root'), sym.bool('in_dynamic_branch'), sym.bool('was_dynamic_root'), sym.bool('unstable_config_imports')
    jsr = cube.get('from') == 'jsr'          # one more level up: Builder::load_jsr_subpath (a file of a registry package with embedded version info)
    pending = cube.get('from') in ('pending', 'jsr')
    has_vi = z3.BoolVal(True) if jsr else sym.bool('version_info_embedded')
    if jsr:
        item_ck, has_locker, locker_has, registry_url = z3.BoolVal(True), sym.bool('has_locker'), sym.bool('lockfile_has_checksum'), sym.bool('url_points_into_registry')
        has_ck = z3.BoolVal(True); has_vfut = z3.BoolVal(False)
    elif pending:
        # start one level up, at Builder::load_pending_module: the checksum comes from the queued item or else from the lockfile,
        # and a manifest load is pending exactly for an https URL into the registry without embedded version info
        item_ck, has_locker, locker_has, registry_url = sym.bool('item_carries_checksum'), sym.bool('has_locker'), sym.bool('lockfile_has_checksum'), sym.bool('url_points_into_registry')
        has_ck = z3.Or(item_ck, z3.And(has_locker, locker_has)); has_vfut = z3.And(z3.Not(has_vi), registry_url)
    else:
        has_ck = sym.bool('checksum_known_on_entry'); has_vfut = sym.bool('registry_url_manifest_pending')
    vfut_ok, sub_listed, manifest_ck_ok = sym.bool('manifest_load_ok'), sym.bool('manifest_covers_file'), sym.bool('manifest_checksum_usable')
    rc = sym.bv('redirect_count', 8); maxr = sym.bv('max_redirects', 8)
    has_range, has_spr, has_attr = sym.bool('has_range'), sym.bool('has_source_phase_referrer'), sym.bool('has_attribute')
    resp = [sym.bv(f'loader_answer_{i}', 8, lt=len(RESP)) for i in range(2)]
    parse_ok = sym.bool('parse_ok'); answer_headers = sym.bool('answer_has_headers')
    CK_ENTRY, CK_MANIFEST, CK_LOCK = 1, 2, 3
    LR, CR, LE, PIR = en['LoadResponse'], en['CacheResponse'], en['LoadError'], en['PendingInfoResponse']
    rng = Agg([{'specifier': UrlV(BV(0, 8))}.get(f, O) for f in st['Range']])
    vi_root = Root(opt(has_vi, Opaque('embedded version info')), 'version_info')
    via_root = Root(none(), 'loaded_via_https')
    loader_calls = []       # (guard, kind, specifier id, cache_setting tag, checksum some?, checksum token)
    def stub_loader(kind):
        def f(e, c, a, g):
            o = a[2]; F = st['LoadOptions']
            ck = o.f[F.index('maybe_checksum')]; p = opt_payload(ck)
            tok = p.f[0] if isinstance(p, Agg) else p
            idx = len([1 for x in loader_calls if x[1] == kind])
            loader_calls.append((g, kind, uid(e, a[1]), o.f[F.index('cache_setting')].tag, opt_is_some(ck), tok, o.f[F.index('in_dynamic_branch')], o.f[F.index('was_dynamic_root')]))
            return Agg([BV(idx, 8)])
        f.__name__ = 'stub_loader_' + kind; return f
    def fut_idx(e, pin):
        v = pin
        while isinstance(v, Ptr): v = e.load(v)
        while isinstance(v, Agg) and not z3.is_bv(v.f[0]): v = v.f[0] if not isinstance(v.f[0], Ptr) else e.load(v.f[0])
        i = v.f[0]
        if not z3.is_bv_value(i): raise Unsupported('loader future index is not concrete')
        return i.as_long()
    def ready(v): return EnumV(BV(0, 8), {0: Agg([v])})
    def stub_poll_load(e, c, a, g):
        r = resp[fut_idx(e, a[0])]; i = fut_idx(e, a[0])
        module = EnumV(BV(LR.index('Module'), 8), {LR.index('Module'): Agg([Agg([BV(10 + i, 8)]), none(), UrlV(BV(0, 8)), opt(answer_headers, Opaque('response headers'))])})
        redirect = EnumV(BV(LR.index('Redirect'), 8), {LR.index('Redirect'): Agg([UrlV(BV(1, 8))])})
        external = EnumV(BV(LR.index('External'), 8), {LR.index('External'): Agg([UrlV(BV(0, 8))])})
        some_tag = IF(EQ(r, BV(0, 8)), BV(LR.index('Module'), 8), IF(EQ(r, BV(1, 8)), BV(LR.index('Redirect'), 8), BV(LR.index('External'), 8)))
        lresp = EnumV(some_tag, {LR.index('Module'): module.vars[LR.index('Module')], LR.index('Redirect'): redirect.vars[LR.index('Redirect')], LR.index('External'): external.vars[LR.index('External')]})
        okv = EnumV(IF(EQ(r, BV(3, 8)), BV(0, 8), BV(1, 8)), {0: Agg([]), 1: Agg([lresp])})
        errv = EnumV(IF(EQ(r, BV(4, 8)), BV(LE.index('ChecksumIntegrity'), 8), BV(LE.index('Other'), 8)), {LE.index('ChecksumIntegrity'): Agg([Opaque('integrity error')]), LE.index('Other'): Agg([Opaque('loader error')])})
        return ready(EnumV(IF(ULE(BV(4, 8), r), BV(1, 8), BV(0, 8)), {0: Agg([okv]), 1: Agg([errv])}))
    def stub_poll_cache(e, c, a, g):
        r = resp[fut_idx(e, a[0])]
        cresp = EnumV(IF(EQ(r, BV(1, 8)), BV(CR.index('Redirect'), 8), BV(CR.index('Cached'), 8)), {CR.index('Cached'): Agg([]), CR.index('Redirect'): Agg([UrlV(BV(1, 8))])})
        okv = EnumV(IF(EQ(r, BV(3, 8)), BV(0, 8), BV(1, 8)), {0: Agg([]), 1: Agg([cresp])})
        errv = EnumV(IF(EQ(r, BV(4, 8)), BV(LE.index('ChecksumIntegrity'), 8), BV(LE.index('Other'), 8)), {LE.index('ChecksumIntegrity'): Agg([Opaque('integrity error')]), LE.index('Other'): Agg([Opaque('loader error')])})
        return ready(EnumV(IF(ULE(BV(4, 8), r), BV(1, 8), BV(0, 8)), {0: Agg([okv]), 1: Agg([errv])}))
    def stub_poll_vfut(e, c, a, g):
        item = Agg([{'checksum_for_locker': none(), 'info': Opaque('version info from the registry')}[f] for f in st['PendingJsrPackageVersionInfoLoadItem']])
        return ready(EnumV(IF(vfut_ok, BV(0, 8), BV(1, 8)), {0: Agg([item]), 1: Agg([EnumV(BV(en['JsrLoadError'].index('PackageVersionManifestLoad'), 8), {})])}))
    parses = []
    def stub_handle_success(e, c, a, g):
        o = a[2]; F = st['ParseModuleAndSourceInfoOptions']
        parses.append((g, o.f[F.index('content')].f[0], uid(e, a[1]))); return Agg([BV(len(parses) - 1, 8)])
    def stub_poll_parse(e, c, a, g):
        M = PIR.index('Module')
        okv = EnumV(BV(M, 8), {M: Agg([UrlV(BV(0, 8)), Opaque('module source and info'), none(), is_root])})
        return ready(EnumV(IF(parse_ok, BV(0, 8), BV(1, 8)), {0: Agg([okv]), 1: Agg([Agg([BoxV(EnumV(BV(en['ModuleErrorKind'].index('Parse'), 8), {}))])])}))
    ident = lambda e, c, a, g: a[0]
    def stub_get_checksum(e, c, a, g):
        return EnumV(IF(manifest_ck_ok, BV(0, 8), BV(1, 8)), {0: Agg([ref_to(Agg([BV(CK_MANIFEST, 8)]), 'manifest-checksum')]),
                     1: Agg([EnumV(BV(en['ModuleLoadError'].index('Jsr'), 8), {en['ModuleLoadError'].index('Jsr'): Agg([EnumV(BV(en['JsrLoadError'].index('UnsupportedManifestChecksum'), 8), {})])})])})
    def stub_to_string(e, c, a, g):
        v = a[0]
        while isinstance(v, Ptr): v = e.load(v)
        return v.f[0] if isinstance(v, Agg) else v
    eng.cfg['stubs'] = [
        (re.compile(r'<dyn .*Loader as .*Loader>::load'), stub_loader('load')), (re.compile(r'<dyn .*Loader as .*Loader>::ensure_cached'), stub_loader('ensure_cached')),
        (re.compile(r'<dyn .*Loader as .*Loader>::max_redirects'), lambda e, c, a, g: maxr),
        (re.compile(r'<Pin<Box<dyn .*Future<Output = Result<Option<LoadResponse>, LoadError>>>> as .*Future>::poll'), stub_poll_load),
        (re.compile(r'<Pin<Box<dyn .*Future<Output = Result<Option<CacheResponse>, LoadError>>>> as .*Future>::poll'), stub_poll_cache),
        (re.compile(r'<SharedLocal<.*> as .*Future>::poll'), stub_poll_vfut),
        (re.compile(r'<\{async fn body of .*handle_success\(\)\} as .*Future>::poll'), stub_poll_parse),
        (re.compile(r'(.*::)?handle_success'), stub_handle_success),
        (re.compile(r'<.* as .*IntoFuture>::into_future'), ident), (re.compile(r'Pin::<&mut .*>::new_unchecked'), lambda e, c, a, g: Agg([a[0]])),
        (re.compile(r'<dyn .*JsrUrlProvider as .*JsrUrlProvider>::package_url'), lambda e, c, a, g: UrlV(BV(2, 8))),
        (re.compile(r'JsrPackageVersionInfoExt::get_subpath'), lambda e, c, a, g: opt(sub_listed, ref_to(SymStr('sub path'), 'sub'))),
        (re.compile(r'JsrPackageVersionInfoExt::get_checksum'), stub_get_checksum),
        (re.compile(r'<str as ToString>::to_string'), stub_to_string),
        (re.compile(r'Arc::<.*LoadError>::new'), ident),
        (re.compile(r'format|(alloc::|std::)?fmt::format|format::<.*>|.*fmt::Arguments::<.*>::new.*|.*fmt::rt::Argument::<.*>::new_display::<.*>|.*Arguments::<.*>::from_str.*|must_use::<String>'), lambda e, c, a, g: Opaque('formatted text')),
        (re.compile(r'.*LoaderChecksum::into_string'), lambda e, c, a, g: Opaque('checksum text')),
    ]
    up = [None] * 17
    names = ['is_root', 'redirect_count', 'load_specifier', 'maybe_checksum', 'maybe_range', 'maybe_source_phase_referrer', 'maybe_version_info', 'maybe_attribute_type',
             'loaded_package_via_https_url', 'maybe_version_load_fut', 'is_asset', 'in_dynamic_branch', 'was_dynamic_root', 'loader', 'jsr_url_provider', 'module_analyzer', 'unstable_config_imports']
    fname = next(n for n in mir.fn_text if n.endswith('try_load::{closure#0}'))
    dbg = dict(re.findall(r'debug (\w+) => \(\(\*_\d+\)\.(\d+):', mir.fn_text[fname]))
    if sorted(dbg) != sorted(names): raise Unsupported(f'try_load parameters changed: {sorted(dbg)}')
    attr_v = Agg([{'range': rng, 'kind': SymStr('attribute kind')}[f] for f in st['AttributeTypeWithRange']])
    vals = {'is_root': is_root, 'redirect_count': rc, 'load_specifier': UrlV(BV(0, 8)), 'maybe_checksum': opt(has_ck, Agg([BV(CK_ENTRY, 8)])), 'maybe_range': opt(has_range, ref_to(rng, 'range')),
            'maybe_source_phase_referrer': opt(has_spr, ref_to(rng, 'spr')), 'maybe_version_info': Ptr([(TRUE, (vi_root, ()))]), 'maybe_attribute_type': opt(has_attr, attr_v),
            'loaded_package_via_https_url': Ptr([(TRUE, (via_root, ()))]), 'maybe_version_load_fut': opt(has_vfut, Agg([Opaque('package nv'), Opaque('manifest future')])),
            'is_asset': is_asset, 'in_dynamic_branch': in_dyn, 'was_dynamic_root': was_dyn_root, 'loader': Opaque('loader'), 'jsr_url_provider': Opaque('jsr url provider'),
            'module_analyzer': Opaque('analyzer'), 'unstable_config_imports': cfg_imports}
    for n, i in dbg.items(): up[int(i)] = vals[n]
    slots_after = None
    if not pending:
        coro = CoroV(BV(0, 8), {}, up)
        poll = eng.call(fname, [Agg([ref_to(coro, 'try_load')]), Opaque('task context')], TRUE)
        ready_ = poll.is_variant(0); res = poll.vars[0].f[0]
    else:
        queued = []
        def stub_push(e, c, a, g): queued.append((g, a[1])); return UNIT
        eng.cfg['stubs'] += [
            (re.compile(r'<dyn .*JsrUrlProvider as .*JsrUrlProvider>::package_url_to_nv'), lambda e, c, a, g: opt(registry_url, Opaque('package nv'))),
            (re.compile(r'Builder::<.*>::queue_load_package_version_info'), lambda e, c, a, g: UNIT),
            (re.compile(r'<Rc<JsrMetadataStore> as Deref>::deref'), ident),
            (re.compile(r'.*JsrMetadataStore::get_package_version_metadata'), lambda e, c, a, g: opt(TRUE, Opaque('manifest future'))),
            (re.compile(r'<dyn .*Locker as .*Locker>::get_remote_checksum'), lambda e, c, a, g: opt(locker_has, Agg([BV(CK_LOCK, 8)]))),
            (re.compile(r'<\{async block@.*\} as FutureExt>::boxed_local.*'), ident),
            (re.compile(r'FuturesOrdered::<.*>::push_back'), stub_push),
        ]
        slots = Root(Agg([{'module_slots': MapModel.empty(3)}.get(f, O) for f in st['ModuleGraph']]), 'graph')
        item = Agg([{'redirect_count': rc, 'requested_specifier': UrlV(BV(0, 8)), 'maybe_attribute_type': vals['maybe_attribute_type'], 'maybe_range': opt(has_range, rng),
                     'maybe_source_phase_referrer': opt(has_spr, rng), 'load_specifier': UrlV(BV(0, 8)), 'in_dynamic_branch': in_dyn, 'is_asset': is_asset, 'is_root': is_root,
                     'maybe_checksum': opt(item_ck, Agg([BV(CK_ENTRY, 8)])), 'maybe_version_info': opt(has_vi, Opaque('embedded version info'))}[f] for f in st['PendingModuleLoadItem']])
        builder = Agg([{'graph': Ptr([(TRUE, (slots, ()))]), 'loader': Opaque('loader'), 'module_analyzer': Opaque('analyzer'), 'jsr_url_provider': Opaque('jsr url provider'),
                        'was_dynamic_root': was_dyn_root, 'unstable_config_imports': cfg_imports, 'locker': opt(has_locker, ref_to(Opaque('locker'), 'locker')),
                        'state': Agg([O] * len(st['PendingState']))}.get(f, O) for f in st['Builder']])
        broot = Root(builder, 'builder')
        msi_parses = []
        if jsr:
            mt_spec = sym.bv('media_type_by_extension', 8, lt=len(en['MediaType']))
            def stub_poll_msi(e, c, a, g):
                v = a[0]
                while not isinstance(v, CoroV): v = e.load(v) if isinstance(v, Ptr) else v.f[0]
                o = v.up[1]; F = st['ParseModuleAndSourceInfoOptions']
                msi_parses.append((g, v.up[0], o.f[F.index('content')], uid(e, o.f[F.index('specifier')]), o.f[F.index('maybe_headers')]))
                return ready(EnumV(IF(parse_ok, BV(0, 8), BV(1, 8)), {0: Agg([Opaque('module source and info')]), 1: Agg([Agg([BoxV(EnumV(BV(en['ModuleErrorKind'].index('Parse'), 8), {}))])])}))
            eng.cfg['stubs'] += [
                (re.compile(r'.*JsrPackageVersionInfo::module_info'), lambda e, c, a, g: opt(z3.BoolVal(bool(cube.get('info'))), Opaque('embedded module info'))),
                (re.compile(r'<Arc<.*JsrPackageVersionInfo> as Deref>::deref'), ident),
                (re.compile(r'MediaType::from_specifier'), lambda e, c, a, g: EnumV(mt_spec, {})),
                (re.compile(r'<\{async fn body of .*parse_module_source_and_info\(\)\} as .*Future>::poll'), stub_poll_msi),
                (re.compile(r'Arc::<\[u8; \d+\]>::new'), lambda e, c, a, g: Agg([BV(99, 8)])),
                (re.compile(r'RefCell::<.*>::new|Box::<\(.*LoaderChecksum, .*ModuleInfo\)>::new'), ident),
                (re.compile(r'<.*ModuleInfo as Clone>::clone'), ident),
            ]
            builder = Agg([b if f != 'in_dynamic_branch' else in_dyn for f, b in zip(st['Builder'], builder.f)])
            broot = Root(builder, 'builder')
            vinfo = Agg([{'base_url': UrlV(BV(2, 8)), 'inner': Opaque('version info')}[f] for f in st['JsrPackageVersionInfoExt']])
            options = Agg([{'specifier': url_ref(BV(0, 8)), 'maybe_range': opt(has_range, ref_to(rng, 'range')), 'maybe_source_phase_referrer': opt(has_spr, ref_to(rng, 'spr')),
                            'is_asset': is_asset, 'in_dynamic_branch': in_dyn, 'is_root': is_root, 'maybe_attribute_type': vals['maybe_attribute_type'],
                            'maybe_version_info': opt(TRUE, ref_to(vinfo, 'vi'))}[f] for f in st['LoadOptionsRef']])
            eng.call(mir.find('Builder', 'load_jsr_subpath'), [Ptr([(TRUE, (broot, ()))]), rc, url_ref(BV(0, 8)), ref_to(vinfo, 'vi'), ref_to(SymStr('sub path'), 'sub'), options], TRUE)
        else:
            eng.call(mir.find('Builder', 'load_pending_module'), [Ptr([(TRUE, (broot, ()))]), item], TRUE)
        if len(queued) != 1 or not isinstance(queued[0][1], CoroV): raise Unsupported(f'load_pending_module queued {len(queued)} futures: {[(str(g)[:60], type(v).__name__) for g, v in queued]}')
        fut = queued[0][1]
        span = re.match(r'\{coroutine@(.*?) \(#\d+\)\}', fut.span).group(1)
        poll = eng.dispatch('<{async block@' + span + '} as Future>::poll', [Agg([ref_to(fut, 'queued-future')]), Opaque('task context')], queued[0][0], None)
        ready_ = poll.is_variant(0)
        res = poll.vars[0].f[0].f[st['PendingInfo'].index('result')]
        slots_after = slots.val.f[st['ModuleGraph'].index('module_slots')]
    is_ok, is_err = AND(ready_, res.is_variant(0)), AND(ready_, res.is_variant(1))
    okv = res.vars[0].f[0] if 0 in res.vars and res.vars[0].f else EnumV(BV(0, 8), {})
    errk = res.vars[1].f[0] if 1 in res.vars and res.vars[1].f else None
    while isinstance(errk, (BoxV, Agg)) and not isinstance(errk, EnumV): errk = errk.val if isinstance(errk, BoxV) else errk.f[0]
    MEK, MLE, JLE = en['ModuleErrorKind'], en['ModuleLoadError'], en['JsrLoadError']
    # Load { specifier, maybe_referrer, err }: the ModuleLoadError and, inside Jsr(..), the JsrLoadError
    load_fields = errk.vars.get(MEK.index('Load')) if errk is not None else None
    mle = load_fields.f[2] if load_fields is not None and len(load_fields.f) > 2 else None
    def err_is(kind, mlek=None, jsrk=None):
        if errk is None: return z3.BoolVal(False)
        c = [is_err, errk.tag == MEK.index(kind)]
        if mlek is not None:
            if not isinstance(mle, EnumV): return z3.BoolVal(False)
            c.append(mle.tag == MLE.index(mlek))
            if jsrk is not None:
                j = mle.vars.get(MLE.index('Jsr'))
                j = j.f[0] if j is not None and j.f else None
                if not isinstance(j, EnumV): return z3.BoolVal(False)
                c.append(j.tag == JLE.index(jsrk))
        return z3.And(c)
    okModule, okRedirect, okExternal = (AND(is_ok, okv.is_variant(PIR.index(x))) for x in ('Module', 'Redirect', 'External'))
    calls = loader_calls
    g_of = lambda i: calls[i][0] if i < len(calls) else FALSE
    ncalls = len(calls)
    # which call sites are the first / the retry: per loader kind the MIR has two call sites, the first and the cache-bypassing one
    by_kind = {kd: [c for c in calls if c[1] == kd] for kd in ('load', 'ensure_cached')}
    mine = by_kind['ensure_cached' if cube['asset'] else 'load']; other = by_kind['load' if cube['asset'] else 'ensure_cached']
    first, retry = (mine + [None, None])[:2]
    g1 = first[0] if first else FALSE; g2 = retry[0] if retry else FALSE
    # the checksum known when the loader is asked
    manifest_applies = z3.And(has_vfut, vfut_ok, sub_listed, manifest_ck_ok)
    known = z3.Or(has_ck, manifest_applies)
    entry_tok = z3.BitVecVal(CK_MANIFEST, 8) if jsr else z3.If(item_ck, z3.BitVecVal(CK_ENTRY, 8), z3.BitVecVal(CK_LOCK, 8)) if pending else z3.BitVecVal(CK_ENTRY, 8)
    known_tok = z3.If(manifest_applies, z3.BitVecVal(CK_MANIFEST, 8), entry_tok)
    vi_after = z3.Or(has_vi, z3.And(has_vfut, vfut_ok))      # version info present when the loader is asked
    CS = en['CacheSetting']
    def wrong_ck(c): return z3.And(c[0], z3.Or(c[4] != known, z3.And(known, c[5] != known_tok)))
    r0, r1 = resp[0], resp[1]
    A = lambda r, name: r == RESP.index(name)
    pre_fail = z3.And(has_vfut, z3.Or(z3.Not(vfut_ok), z3.And(sub_listed, z3.Not(manifest_ck_ok))))

    class W:
        has_fc = True      # BuildOptions::default needs the swc-enabled replay binary
        def to_json(self, m): return {'positions': True}
    class Op:
        def op_json(self, m):
            route = 'jsr_specifier' if ev(m, has_vi) else 'registry_url' if ev(m, has_vfut) else 'plain'
            reg = route == 'registry_url'
            return {'op': 'try_load', 'asset': cube['asset'], 'checksum_known': ev(m, has_ck) if route != 'jsr_specifier' else False, 'answers': [RESP[ev(m, r0)], RESP[ev(m, r1)]], 'parse_ok': ev(m, parse_ok),
                    'in_dynamic_branch': ev(m, in_dyn), 'redirect_count': ev(m, rc), 'max_redirects': ev(m, maxr), 'route': route,
                    'manifest_load_ok': ev(m, vfut_ok) if reg else True, 'manifest_covers_file': ev(m, sub_listed) if reg else True,
                    'manifest_checksum_usable': ev(m, manifest_ck_ok) if (reg or jsr) else True}
        def decode(self, m):
            seen = [{'cache_setting': CS[ev(m, c[3])], 'checksum': ev(m, c[4])} for c in calls if ev(m, c[0])]
            if jsr and not ev(m, manifest_ck_ok): return {'calls': seen, 'result': 'err:Load:Jsr' if ev(m, z3.And(slots_after.present[0], slots_after.vals[0].tag == en['ModuleSlot'].index('Err'))) else 'absent', 'err_has_referrer': ev(m, has_range)}
            if ev(m, is_err):
                k_ = MEK[ev(m, errk.tag)]; d = k_
                if k_ == 'Load' and isinstance(mle, EnumV):
                    d += ':' + MLE[ev(m, mle.tag)]
                ref = None
                for c_, rf in err_field(1):
                    if ev(m, c_) and isinstance(rf, EnumV): ref = ev(m, rf.tag) == 1
                return {'calls': seen, 'result': 'err:' + d, 'err_has_referrer': ref}
            return {'calls': seen, 'result': 'module' if ev(m, okModule) else 'redirect' if ev(m, okRedirect) else 'external', 'err_has_referrer': None}
    def err_field(i):
        # field i (0 = specifier, 1 = maybe_referrer) of the Load / Missing error the result carries
        out = []
        for kname in ('Load', 'Missing'):
            fs = errk.vars.get(MEK.index(kname)) if errk is not None else None
            if fs is not None and len(fs.f) > i and fs.f[i] is not None: out.append((errk.tag == MEK.index(kname), fs.f[i]))
        return out
    # natively rebuildable through a real build with a scripted loader: an ordinary https module (lockfile checksum or none), an https URL into
    # the registry (version manifest served or not, listing the file or not, usable checksum or not), or a file of a jsr: package (embedded
    # version info, manifest checksum); first hop, default redirect limit, static import
    plain_r = z3.And(z3.Not(has_vi), z3.Not(has_vfut)); reg_r = z3.And(z3.Not(has_vi), has_vfut); jsr_r = z3.And(has_vi, z3.Not(has_vfut), has_ck)
    real = [z3.Or(plain_r, reg_r, jsr_r), z3.Implies(reg_r, sub_listed), parse_ok, rc == 0, maxr == 10, has_range, z3.Not(has_spr), z3.Not(has_attr) if not cube['asset'] else has_attr, z3.Not(is_root), z3.Not(was_dyn_root), z3.Not(in_dyn)]
    if pending and not jsr: real += [has_locker, z3.Implies(has_vi, z3.And(item_ck, z3.Not(locker_has))), z3.Implies(z3.Not(has_vi), z3.Not(item_ck))]
    if jsr: real += [has_locker, z3.Not(locker_has)]
    kw = dict(ops=[Op()], world=W(), realizable=real)
    if cube.get('op_only'): return eng, W(), [], [Query('op', FALSE, **kw)]
    if cube.get('c01'):
        # C01 reading: a redirect answer that is followed carries the request on unchanged — attribute, asset / dynamic / root flags, one more hop, the new target
        R = PIR.index('Redirect'); rf = okv.vars.get(R)
        from .pmsi import variant_fields
        vfr = variant_fields(mir, 'PendingInfoResponse')['Redirect']
        fld_ = lambda n: rf.f[vfr.index(n)]
        at = fld_('maybe_attribute_type')
        class OpR:
            # replayed through a real build: `import x from X with { type: "json" }` where the loader redirects X to a TypeScript module Y: with the attribute
            # carried over, Y is refused as a JSON import (InvalidTypeAssertion); if it is lost on the way, Y loads as an ordinary module
            def op_json(self, m):
                d = Op().op_json(m); d['json_attr'] = ev(m, has_attr); d['answers'] = ['Redirect', 'Module']; return d
            def decode(self, m):
                kept = ev(m, at.tag) == 1
                return {'calls': [{'cache_setting': 'Use', 'checksum': ev(m, has_ck)}], 'result': 'err:InvalidTypeAssertion' if kept else 'redirect', 'err_has_referrer': None}
        realr = [plain_r, A(r0, 'Redirect'), z3.Not(has_ck), has_attr, rc == 0, maxr == 10, has_range, z3.Not(has_spr), z3.Not(is_root), z3.Not(was_dyn_root), z3.Not(in_dyn), parse_ok]
        rkw = dict(ops=[OpR()], world=W(), realizable=realr)
        c01 = [Query('no-panic', Or(g for _, g in eng.panics)),
               Query('a-followed-redirect-carries-the-import-attribute-of-the-request', z3.And(okRedirect, at.is_variant(1) != has_attr), **(rkw if not cube['asset'] else {})),
               Query('a-followed-redirect-carries-the-flags-one-more-hop-and-the-new-target', z3.And(okRedirect, z3.Or(fld_('is_asset') != is_asset, fld_('is_dynamic') != in_dyn, fld_('is_root') != is_root, fld_('count') != rc + 1, fld_('specifier').id != 1))),
               Query('witness-redirect-with-attribute', z3.And(okRedirect, has_attr), expect='sat', kind='witness', **(rkw if not cube['asset'] else {}))]
        for fname_ in sorted({f for f, _ in eng.exceeded}): c01.append(Query('unwinding:' + fname_.split('>::')[-1], Or(g for f, g in eng.exceeded if f == fname_), kind='unwind'))
        return eng, W(), list(sym.cons), c01
    if cube.get('c03'):
        # C03 reading of the same execution: every loader / manifest / parse outcome at every await yields a definite response or error,
        # without panicking, and every error names the requested specifier (the package for a failed manifest load) with the referrer
        bad_spec = Or(z3.And(is_err, c, z3.Not(z3.Or(sp.id == 0, z3.And(sp.id == 2, has_vfut, z3.Not(vfut_ok))))) for c, sp in err_field(0) if isinstance(sp, UrlV))
        bad_ref = Or(z3.And(is_err, c, rf.is_variant(1) != has_range) for c, rf in err_field(1) if isinstance(rf, EnumV))
        named = Or(c for c, _ in err_field(0))
        answered = lambda name: z3.And(g1, A(r0, name))
        c03 = [Query('no-panic', Or(g for _, g in eng.panics)), Query('every-outcome-is-a-definite-response-or-error', z3.Not(z3.And(ready_, z3.Or(is_ok, is_err)))),
               Query('every-error-names-the-requested-specifier', bad_spec), Query('every-error-carries-the-referrer-of-the-request', bad_ref, **kw),
               Query('errors-are-load-missing-or-parse-errors', z3.And(is_err, z3.Not(z3.Or(named, errk.tag == MEK.index('Parse')))) if errk is not None else z3.BoolVal(False)),
               Query('not-found-becomes-a-missing-error', z3.And(answered('NotFound'), z3.Not(err_is('Missing'))), **kw),
               Query('a-loader-failure-becomes-a-load-error', z3.And(answered('OtherError'), z3.Not(err_is('Load', 'Loader'))), **kw),
               Query('a-delivered-module-or-cached-asset-becomes-a-response', z3.And(answered('Module'), parse_ok, z3.Not(okModule if not cube['asset'] else okExternal)), **kw),
               Query('an-external-answer-becomes-a-response', z3.And(answered('External'), z3.Not(okExternal)), **kw),
               Query('a-failed-manifest-step-is-an-error', z3.And(pre_fail, z3.Not(is_err))),
               Query('witness-missing', z3.And(answered('NotFound'), err_is('Missing')), expect='sat', kind='witness', **kw),
               Query('witness-loader-error', z3.And(answered('OtherError'), is_err), expect='sat', kind='witness', **kw)]
        for fname_ in sorted({f for f, _ in eng.exceeded}): c03.append(Query('unwinding:' + fname_.split('>::')[-1], Or(g for f, g in eng.exceeded if f == fname_), kind='unwind'))
        return eng, W(), list(sym.cons), c03
    if jsr:
        if cube.get('info') and not cube['asset']: kw = {}      # embedded module information (moduleGraph2) is not rebuilt by the native replay: that cube is decided by the solver alone
        SLOT = en['ModuleSlot']; sv = slots_after.vals[0]
        slot_is = lambda name: z3.And(slots_after.present[0], sv.tag == SLOT.index(name))
        jsr_qs = [Query('no-panic', Or(g for _, g in eng.panics)),
                  Query('an-unusable-manifest-checksum-is-an-error-entry-and-nothing-is-loaded', z3.And(z3.Not(manifest_ck_ok), z3.Or(Or(c[0] for c in calls), queued[0][0], z3.Not(slot_is('Err')))), **kw),
                  Query('otherwise-exactly-one-load-future-is-queued-and-the-file-is-marked-pending', z3.And(manifest_ck_ok, z3.Or(z3.Not(queued[0][0]), z3.Not(ready_), z3.Not(slot_is('Pending'))))),
                  Query('every-loader-call-carries-exactly-the-manifest-checksum', Or(z3.And(c[0], z3.Or(z3.Not(c[4]), c[5] != CK_MANIFEST)) for c in calls), **kw),
                  Query('loader-is-asked-for-the-file-with-the-request-flags', Or(z3.And(c[0], z3.Or(c[2] != 0, c[7] != was_dyn_root)) for c in calls), **kw)]
        for fname_ in sorted({f for f, _ in eng.exceeded}): jsr_qs.append(Query('unwinding:' + fname_.split('>::')[-1], Or(g for f, g in eng.exceeded if f == fname_), kind='unwind'))
    if jsr and cube.get('info') and not cube['asset']:
        # embedded module information: one cache-only probe, then either the embedded information (content deferred) or what the cache delivered
        if len(calls) != 1 or calls[0][1] != 'load': raise Unsupported(f'probe cube: loader calls {[c[1] for c in calls]}')
        pc = calls[0]; M = PIR.index('Module')
        pl = okv.vars[M].f[2] if M in okv.vars else None       # pending_load
        plp = opt_payload(pl) if isinstance(pl, EnumV) else None
        while isinstance(plp, BoxV): plp = plp.val
        pl_tok = plp.f[0].f[0] if isinstance(plp, Agg) and isinstance(plp.f[0], Agg) else None
        def parsed(content_tok, provided):
            return Or(z3.And(pg, (ct.f[0] == content_tok) if isinstance(ct, Agg) and z3.is_bv(ct.f[0]) else z3.BoolVal(False), z3.BoolVal((not isinstance(an, Opaque)) == provided)) for pg, an, ct, sp, hd in msi_parses)
        ok = manifest_ck_ok
        class OpH:
            # replayed through a real build: a jsr: import of a package with embedded module information whose file IS cached: the cache-only probe
            # delivers UTF-16LE bytes with a `charset=utf-16le` header; the stored text is the decoding only if the headers reach the parse step
            def op_json(self, m):
                return {'op': 'try_load', 'source_report': True, 'headers_charset': True, 'asset': False, 'checksum_known': False, 'answers': ['Module', 'Module'], 'parse_ok': True,
                        'in_dynamic_branch': False, 'redirect_count': 0, 'max_redirects': 10, 'route': 'jsr_specifier', 'embedded_info': True}
            def decode(self, m):
                kept = any(ev(m, pg) and isinstance(an, Opaque) and isinstance(hd, EnumV) and ev(m, hd.tag) == 1 for pg, an, ct, sp, hd in msi_parses)
                # UTF-16 content decoded under its header has no original bytes to hand out (marker Changed); read as UTF-8 it is stored unchanged
                return {'text_is_the_decoding': kept, 'original_bytes_are_the_loaded_bytes': None if kept else True}
        hkw = dict(ops=[OpH()], world=W(), realizable=[manifest_ck_ok, A(r0, 'Module'), answer_headers, parse_ok, has_range, z3.Not(is_root), z3.Not(in_dyn), z3.Not(was_dyn_root)])
        jsr_qs += [
            Query('the-probe-is-cache-only', z3.Or(pc[0] != ok, z3.And(pc[0], pc[3] != CS.index('Only')))),
            Query('a-redirect-answer-is-rejected-as-redirect-in-package', z3.And(ok, A(r0, 'Redirect'), z3.Not(err_is('Load', 'Jsr', 'RedirectInPackage')))),
            Query('cached-content-is-parsed-as-delivered-with-the-real-analyzer', z3.And(ok, A(r0, 'Module'), z3.Not(z3.And(parsed(10, False), z3.Or(z3.Not(parse_ok), okModule))))),
            Query('no-cached-copy-uses-the-embedded-information-and-defers-the-content-load-with-the-manifest-checksum',
                  z3.And(ok, A(r0, 'NotFound'), z3.Not(z3.And(parsed(99, True), z3.Or(z3.Not(parse_ok), z3.And(okModule, opt_is_some(pl) if isinstance(pl, EnumV) else z3.BoolVal(False), (pl_tok == CK_MANIFEST) if pl_tok is not None else z3.BoolVal(False))))))),
            Query('a-loader-error-on-the-probe-is-an-error-entry', z3.And(ok, z3.Or(A(r0, 'ChecksumError'), A(r0, 'OtherError')), z3.Not(err_is('Load', 'Loader')))),
            Query('cached-content-is-parsed-with-the-headers-the-loader-delivered', z3.And(ok, A(r0, 'Module'), Or(z3.And(pg, z3.BoolVal(isinstance(an, Opaque)), (hd.is_variant(1) != answer_headers) if isinstance(hd, EnumV) else z3.BoolVal(True)) for pg, an, ct, sp, hd in msi_parses)), **hkw),
            Query('witness-cached-content-with-headers', z3.And(ok, A(r0, 'Module'), answer_headers, okModule), expect='sat', kind='witness', **hkw),
            Query('witness-embedded-information-used', z3.And(ok, A(r0, 'NotFound'), okModule), expect='sat', kind='witness'),
            Query('witness-cached-copy-used', z3.And(ok, A(r0, 'Module'), okModule), expect='sat', kind='witness')]
        return eng, W(), list(sym.cons), jsr_qs
    qs = [Query('no-panic', Or(g for _, g in eng.panics)), Query('first-poll-completes', z3.Not(ready_))]
    for fname_ in sorted({f for f, _ in eng.exceeded}): qs.append(Query('unwinding:' + fname_.split('>::')[-1], Or(g for f, g in eng.exceeded if f == fname_), kind='unwind'))
    qs.append(Query('the-other-loader-entry-point-is-not-used', Or(c[0] for c in other)))
    qs.append(Query('every-loader-call-carries-exactly-the-known-checksum', Or(wrong_ck(c) for c in calls), **kw))
    qs.append(Query('loader-is-asked-for-the-requested-specifier-with-the-request-flags', Or(z3.And(c[0], z3.Or(c[2] != 0, c[6] != in_dyn, c[7] != was_dyn_root)) for c in calls), **kw))
    qs.append(Query('first-call-uses-the-cache-and-happens-unless-the-manifest-step-failed', z3.Or(z3.And(g1, first[3] != CS.index('Use')) if first else z3.BoolVal(True), g1 == pre_fail), **kw))
    qs.append(Query('retry-only-after-an-integrity-error-outside-a-package-bypassing-the-cache',
                    z3.Or(g2 != z3.And(g1, A(r0, 'ChecksumError'), z3.Not(vi_after)), z3.And(g2, retry[3] != CS.index('Reload')) if retry else z3.BoolVal(False)), **kw))
    qs.append(Query('never-more-than-two-loader-calls', z3.BoolVal(len(mine) > 2) if len(mine) > 2 else z3.BoolVal(False)))
    good_retry = z3.And(g2, A(r1, 'Module') if not cube['asset'] else z3.Or(A(r1, 'External'), A(r1, 'Module')))
    after_integrity = z3.And(g1, A(r0, 'ChecksumError'))
    admitted = z3.Or(okModule, okExternal, okRedirect)
    qs.append(Query('rejected-content-is-admitted-only-through-the-single-cache-bypassing-retry', z3.And(after_integrity, admitted, z3.Not(good_retry)), **kw))
    integrity_err = z3.If(vi_after, err_is('Load', 'Jsr', 'ContentChecksumIntegrity'), err_is('Load', 'HttpsChecksumIntegrity'))
    qs.append(Query('otherwise-an-integrity-error-is-reported', z3.And(after_integrity, z3.Not(good_retry), z3.Not(integrity_err)), **kw))
    redirected = z3.And(g1, A(r0, 'Redirect'))
    qs.append(Query('a-redirect-inside-a-package-or-of-a-checksummed-url-is-rejected',
                    z3.And(redirected, z3.Or(z3.And(vi_after, z3.Not(err_is('Load', 'Jsr', 'RedirectInPackage'))), z3.And(z3.Not(vi_after), known, z3.Not(err_is('Load', 'HttpsChecksumIntegrity'))))), **kw))
    qs.append(Query('an-unchecksummed-redirect-is-followed-up-to-the-limit', z3.And(redirected, z3.Not(vi_after), z3.Not(known), z3.If(z3.UGE(rc, maxr), z3.Not(err_is('Load', 'TooManyRedirects')), z3.Not(okRedirect))), **kw))
    qs.append(Query('a-failed-manifest-step-is-an-error-before-any-loader-call', z3.And(pre_fail, z3.Or(z3.Not(is_err), Or(c[0] for c in calls)))))
    if not cube['asset']:
        qs.append(Query('a-module-is-parsed-from-exactly-the-content-the-accepted-load-delivered',
                        Or(z3.And(pg, z3.Not(z3.Or(z3.And(g1, A(r0, 'Module'), cid == 10, z3.Not(g2)), z3.And(g2, A(r1, 'Module'), cid == 11)))) for pg, cid, _ in parses), **kw))
        qs.append(Query('witness-retry-delivers-a-module', z3.And(after_integrity, okModule), expect='sat', kind='witness', **kw))
    if pending:
        if not jsr: qs.append(Query('exactly-one-load-future-is-queued-per-request', z3.Not(queued[0][0])))
        P = en['ModuleSlot'].index('Pending')
        sv = slots_after.vals[0]
        qs.append(Query('the-requested-specifier-is-marked-pending-with-the-asset-flag', z3.Not(z3.And(slots_after.present[0], sv.tag == P, sv.vars[P].f[0] == is_asset)) if isinstance(sv, EnumV) else z3.BoolVal(True)))
        qs.append(Query('witness-lockfile-checksum-reaches-the-loader', z3.And(z3.Not(item_ck), has_locker, locker_has, g1, first[5] == CK_LOCK), expect='sat', kind='witness', **kw))
    qs.append(Query('witness-integrity-error', z3.And(after_integrity, err_is('Load', 'HttpsChecksumIntegrity')), expect='sat', kind='witness', **kw))
    qs.append(Query('witness-checksummed-redirect-rejected', z3.And(redirected, known, z3.Not(vi_after), is_err), expect='sat', kind='witness', **kw))
    qs.append(Query('witness-manifest-checksum-used', z3.And(manifest_applies, g1), expect='sat', kind='witness'))
    qs.append(Query('witness-redirect-followed', okRedirect, expect='sat', kind='witness', **kw))
    if jsr:
        qs = [q for q in qs if q.name not in ('no-panic', 'witness-manifest-checksum-used', 'witness-lockfile-checksum-reaches-the-loader', 'witness-retry-delivers-a-module', 'witness-integrity-error', 'witness-checksummed-redirect-rejected', 'witness-redirect-followed', 'an-unchecksummed-redirect-is-followed-up-to-the-limit')]
        for q in qs:
            q.formula = z3.And(manifest_ck_ok, q.formula)
        qs = jsr_qs + qs + [Query('witness-integrity-error-inside-a-package', z3.And(manifest_ck_ok, g1, A(r0, 'ChecksumError'), err_is('Load', 'Jsr', 'ContentChecksumIntegrity')), expect='sat', kind='witness', **kw),
                            Query('witness-module-from-the-package', z3.And(manifest_ck_ok, okModule if not cube['asset'] else okExternal), expect='sat', kind='witness', **kw)]
    return eng, W(), list(sym.cons), qs

def differential(mir, seed, count):
    """encoder validation: concrete load scenarios through the interpreter and through a real build with a scripted, recording Loader"""
    import random, time
    from ..harness import run_replay
    rng = random.Random(5000 + seed)
    s = z3.Solver(); s.check(); M0 = s.model()
    t0 = time.time(); bad, examples = 0, []
    import mirsym.props.c05 as me
    orig = me.Sym
    for c in range(count):
        asset = rng.random() < 0.4
        pin = {'is_root': False, 'in_dynamic_branch': False, 'was_dynamic_root': False, 'unstable_config_imports': False, 'checksum_known_on_entry': rng.random() < 0.6,
               'version_info_embedded': False, 'registry_url_manifest_pending': False, 'manifest_load_ok': rng.random() < 0.8, 'manifest_covers_file': True, 'manifest_checksum_usable': rng.random() < 0.8,
               'redirect_count': 0, 'max_redirects': 10, 'has_range': True, 'has_source_phase_referrer': False, 'has_attribute': asset,
               'loader_answer_0': rng.randrange(len(RESP)), 'loader_answer_1': rng.randrange(len(RESP)), 'parse_ok': True, 'scheme0': 0, 'scheme1': 0, 'scheme2': 0}
        route = rng.choice(['plain', 'registry_url', 'jsr_specifier'])
        if route == 'registry_url': pin['registry_url_manifest_pending'] = True
        if route == 'jsr_specifier': pin['version_info_embedded'] = True; pin['checksum_known_on_entry'] = True
        try:
            me.Sym = lambda: orig(pin)
            eng, _, base, qs = build(mir, {'asset': asset, 'op_only': True})
        finally:
            me.Sym = orig
        op = [q for q in qs if q.ops][0].ops[0]
        oj, dec = op.op_json(M0), op.decode(M0)
        real = run_replay({'world': {'positions': True}, 'ops': [oj]}, fast_check=True)['outputs'][0]
        if dec != real:
            bad += 1
            if len(examples) < 3: examples.append({'op': oj, 'interpreter': dec, 'real': real})
    return {'cases': count, 'operations_compared': count, 'mismatches': bad, 'examples': examples, 'seconds': round(time.time() - t0, 1), 'seed': seed}

# ----------------------------------------------------------------------------------------------------------------------------------
# Builder::visit — what happens when a load completes: lockfile write for new remote modules, deferred content load of a registry
# file, entry for external / asset answers, redirect answers handed back to load_with_redirect_count.
def build_visit(mir, cube):
    sym = Sym()
    st, en = dict(mir.structs), mir.enums
    MT = en['MediaType']
    eng = Engine(mir, usize_bits=8, unroll=4)
    scheme = sym.bv('specifier_scheme', 8, lt=len(SCHEMES))
    eng.cfg['N'] = 2; eng.cfg['scheme'] = [scheme, scheme]
    PIR = en['PendingInfoResponse']; MSI = en['ModuleSourceAndInfo']
    from .pmsi import variant_fields
    vf_pir, vf_msi = variant_fields(mir, 'PendingInfoResponse'), variant_fields(mir, 'ModuleSourceAndInfo')
    kind = cube['response']        # 'Module' | 'External' | 'Redirect'
    is_root, is_asset, in_dyn, was_dyn_root = sym.bool('is_root'), sym.bool('is_asset'), sym.bool('in_dynamic_branch'), sym.bool('was_dynamic_root')
    has_vi, has_pending_load, has_locker, locker_has, has_ref = sym.bool('version_info_present'), sym.bool('content_load_deferred'), sym.bool('has_locker'), sym.bool('lockfile_has_entry'), sym.bool('has_referrer')
    mclass = sym.bv('module_class', 8, lt=3)          # Json / Js / Wasm
    mt = sym.bv('media_type', 8, lt=len(MT))
    pre_present, pre_pending = sym.bool('entry_exists'), sym.bool('entry_is_pending')
    CK_MANIFEST, TEXT, WASM = 2, 7, 8
    rng = Agg([{'specifier': UrlV(BV(1, 8))}.get(f, O) for f in st['Range']])
    src = Agg([{'text': Agg([BV(TEXT, 8)])}.get(f, O) for f in st['ModuleTextSource']])
    def msi_variant(name):
        vals = {'specifier': UrlV(BV(0, 8)), 'media_type': EnumV(mt, {}), 'source': src if name != 'Wasm' else Agg([BV(WASM, 8)]), 'source_dts': O, 'module_info': O, 'mtime': none(), 'maybe_headers': none()}
        return Agg([vals[f] for f in vf_msi[name]])
    msi = EnumV(mclass, {MSI.index(n): msi_variant(n) for n in ('Json', 'Js', 'Wasm')})
    pend_load = opt(has_pending_load, BoxV(Agg([Agg([BV(CK_MANIFEST, 8)]), Opaque('embedded module info')])))
    resp_vals = {'External': {'specifier': UrlV(BV(0, 8)), 'is_root': is_root, 'is_asset': is_asset},
                 'Module': {'specifier': UrlV(BV(0, 8)), 'module_source_and_info': msi, 'pending_load': pend_load, 'is_root': is_root},
                 'Redirect': {'count': sym.bv('redirect_count', 8), 'specifier': UrlV(BV(1, 8)), 'maybe_attribute_type': none(), 'is_asset': is_asset, 'is_dynamic': in_dyn, 'is_root': is_root}}
    response = EnumV(BV(PIR.index(kind), 8), {PIR.index(kind): Agg([resp_vals[kind][f] for f in vf_pir[kind]])})
    loads, lock_writes, roots, reloads, queued = [], [], [], [], []
    def stub_load(e, c, a, g):
        o = a[2]; F = st['LoadOptions']; ck = o.f[F.index('maybe_checksum')]; p = opt_payload(ck)
        loads.append((g, uid(e, a[1]), o.f[F.index('cache_setting')].tag, opt_is_some(ck), p.f[0] if isinstance(p, Agg) else p, o.f[F.index('in_dynamic_branch')], o.f[F.index('was_dynamic_root')]))
        return Opaque('content future')
    def stub_gen(e, c, a, g):
        v = a[0]
        while isinstance(v, Ptr): v = e.load(v)
        while isinstance(v, Agg) and not z3.is_bv(v.f[0]): v = v.f[0]
        return Agg([v.f[0] + 100])           # the digest of the bytes with token t is the token t + 100
    def stub_set(e, c, a, g):
        ck = a[2]
        while isinstance(ck, Agg) and not z3.is_bv(ck.f[0]): ck = ck.f[0]
        lock_writes.append((g, uid(e, a[1]), ck.f[0])); return UNIT
    ident = lambda e, c, a, g: a[0]
    eng.cfg['stubs'] = [
        (re.compile(r'<dyn .*Loader as .*Loader>::load'), stub_load),
        (re.compile(r'.*LoaderChecksum::r#gen|.*LoaderChecksum::gen'), stub_gen),
        (re.compile(r'<dyn .*Locker as .*Locker>::has_remote_checksum'), lambda e, c, a, g: locker_has),
        (re.compile(r'<dyn .*Locker as .*Locker>::set_remote_checksum'), stub_set),
        (re.compile(r'<dyn .*JsrUrlProvider as .*JsrUrlProvider>::package_url_to_nv'), lambda e, c, a, g: opt(has_vi, Opaque('nv'))),
        (re.compile(r'Builder::<.*>::visit_module'), lambda e, c, a, g: EnumV(BV(en['ModuleSlot'].index('Module'), 8), {en['ModuleSlot'].index('Module'): Agg([Opaque('visited module')])})),
        (re.compile(r'Builder::<.*>::load_with_redirect_count'), lambda e, c, a, g: (reloads.append((g, a[1], a[2])), UNIT)[1]),
        (re.compile(r'<\{async block@.*\} as FutureExt>::boxed_local.*'), ident),
        (re.compile(r'FuturesUnordered::<.*>::push|FuturesOrdered::<.*>::push_back|Vec::<.*>::push'), lambda e, c, a, g: (queued.append((g, a[1])), UNIT)[1]),
        (re.compile(r'<impl str>::as_bytes|(core::|std::)?str::<impl str>::as_bytes|str::as_bytes|<Arc<\[u8\]> as Deref>::deref|<Arc<str> as Deref>::deref'), ident),
        (re.compile(r'format|.*fmt::Arguments::<.*>::new.*|.*fmt::rt::Argument::<.*>::new_display::<.*>|assert_failed.*|.*panic.*'), lambda e, c, a, g: Opaque('text')),
    ]
    slot0 = EnumV(IF(pre_pending, BV(en['ModuleSlot'].index('Pending'), 8), BV(en['ModuleSlot'].index('Module'), 8)),
                  {en['ModuleSlot'].index('Pending'): Agg([sym.bool('pending_is_asset')]), en['ModuleSlot'].index('Module'): Agg([Opaque('earlier module')]), en['ModuleSlot'].index('Err'): Agg([O])})
    graph = Root(Agg([{'module_slots': MapModel([pre_present, FALSE], [slot0, None])}.get(f, O) for f in st['ModuleGraph']]), 'graph')
    state = Agg([{'jsr': Agg([{'pending_content_loads': Opaque('content loads')}.get(f, O) for f in st['PendingJsrState']])}.get(f, O) for f in st['PendingState']])
    builder = Agg([{'graph': Ptr([(TRUE, (graph, ()))]), 'loader': Opaque('loader'), 'jsr_url_provider': Opaque('jsr url provider'), 'in_dynamic_branch': in_dyn, 'was_dynamic_root': was_dyn_root,
                    'locker': opt(has_locker, ref_to(Opaque('locker'), 'locker')), 'state': state, 'resolved_roots': SetModel([FALSE, FALSE], BV(0, 8))}.get(f, O) for f in st['Builder']])
    broot = Root(builder, 'builder')
    eng.call(mir.find('Builder', 'visit'), [Ptr([(TRUE, (broot, ()))]), response, opt(has_ref, rng), none(), opt(has_vi, ref_to(Opaque('version info'), 'vi'))], TRUE)
    post = graph.val.f[st['ModuleGraph'].index('module_slots')]
    roots_after = broot.val.f[st['Builder'].index('resolved_roots')]
    SL = en['ModuleSlot']
    qs = [Query('no-panic', Or(g for _, g in eng.panics))]
    for fname_ in sorted({f for f, _ in eng.exceeded}): qs.append(Query('unwinding:' + fname_.split('>::')[-1], Or(g for f, g in eng.exceeded if f == fname_), kind='unwind'))
    content_item = None
    if kind == 'Module' and queued:
        # the deferred content load queued for a registry file: poll it once (the loader future is environment and ready) to see what it carries
        eng.cfg['stubs'] += [(re.compile(r'<Pin<Box<dyn .*Future<Output = Result<Option<LoadResponse>, LoadError>>>> as .*Future>::poll'), lambda e, c, a, g: EnumV(BV(0, 8), {0: Agg([Opaque('content load result')])})),
                             (re.compile(r'<.* as .*IntoFuture>::into_future'), ident), (re.compile(r'Pin::<&mut .*>::new_unchecked'), lambda e, c, a, g: Agg([a[0]]))]
        qg, fut = queued[0]
        if isinstance(fut, CoroV):
            span = re.match(r'\{coroutine@(.*?) \(#\d+\)\}', fut.span).group(1)
            pr = eng.dispatch('<{async block@' + span + '} as Future>::poll', [Agg([ref_to(fut, 'content-load')]), Opaque('task context')], qg, None)
            content_item = (qg, pr.vars[0].f[0]) if isinstance(pr, EnumV) and 0 in pr.vars else None
    if cube.get('c03'):
        if content_item is not None:
            qg, it = content_item; F = st['PendingContentLoadItem']
            rng_f = it.f[F.index('maybe_range')]; sp_f = it.f[F.index('specifier')]
            class CW:
                has_fc = True
                def to_json(self, m): return {'positions': True}
            class OpCL:
                # a jsr: import of a package whose version manifest embeds module information; nothing cached, the deferred content load finds nothing:
                # the error entry of the file shows whether the referrer travelled with the deferred load
                def op_json(self, m):
                    return {'op': 'try_load', 'only_referrer_flag': True, 'asset': False, 'checksum_known': False, 'answers': ['NotFound', 'NotFound'], 'parse_ok': True, 'in_dynamic_branch': False,
                            'redirect_count': 0, 'max_redirects': 10, 'route': 'jsr_specifier', 'embedded_info': True}
                def decode(self, m): return {'err_has_referrer': ev(m, rng_f.tag) == 1}
            real_cl = [has_pending_load, has_ref, has_vi, z3.Not(is_root), z3.Not(in_dyn), z3.Not(was_dyn_root), scheme == SCHEMES.index('https'), mclass == MSI.index('Js'), mt == MT.index('TypeScript'), pre_present, pre_pending]
            qs.append(Query('a-deferred-content-load-keeps-the-specifier-and-the-referrer-of-the-request', z3.And(qg, z3.Or(rng_f.is_variant(1) != has_ref, sp_f.id != 0)), ops=[OpCL()], world=CW(), realizable=real_cl))
            qs.append(Query('witness-deferred-content-load-with-referrer', z3.And(qg, has_ref), expect='sat', kind='witness', ops=[OpCL()], world=CW(), realizable=real_cl))
        pv = post.vals[0]
        settled = z3.And(post.present[0], pv.tag != SL.index('Pending')) if isinstance(pv, EnumV) else z3.BoolVal(False)
        if kind in ('Module', 'External'):
            class VW3:
                has_fc = True
                def to_json(self, m): return {'positions': True}
            class OpSettle:
                # replayed through a real build: a module import (Module answer) or a `type: text` asset import (External answer) served at once
                def op_json(self, m):
                    return {'op': 'try_load', 'asset': kind == 'External', 'checksum_known': ev(m, locker_has), 'answers': ['Module', 'Module'], 'parse_ok': True, 'in_dynamic_branch': False,
                            'redirect_count': 0, 'max_redirects': 10, 'route': 'plain', 'manifest_load_ok': True, 'manifest_covers_file': True, 'manifest_checksum_usable': True}
                def decode(self, m):
                    res_ = ('external' if kind == 'External' else 'module') if ev(m, settled) else 'absent'
                    return {'calls': [{'cache_setting': 'Use', 'checksum': ev(m, locker_has)}], 'result': res_, 'err_has_referrer': None}
            real3 = [pre_present, pre_pending, z3.Not(has_vi), z3.Not(has_pending_load), has_locker, scheme == SCHEMES.index('https'), z3.Not(is_root), z3.Not(in_dyn), z3.Not(was_dyn_root),
                     z3.And(mclass == MSI.index('Js'), mt == MT.index('TypeScript')), is_asset == (kind == 'External')]
            qs.append(Query('the-answered-specifier-is-settled-never-left-pending', z3.Not(settled), ops=[OpSettle()], world=VW3(), realizable=real3))
            qs.append(Query('witness-settled', settled, expect='sat', kind='witness', ops=[OpSettle()], world=VW3(), realizable=real3))
        else:
            qs.append(Query('a-redirect-answer-is-handed-back-to-the-load-step-exactly-once', z3.Or(z3.BoolVal(len(reloads) != 1), z3.Not(Or(g for g, *_ in reloads)))))
        return eng, (VW3() if kind in ('Module', 'External') else None), list(sym.cons), qs
    wrote = Or(g for g, _, _ in lock_writes)
    class VW:
        has_fc = True
        def to_json(self, m): return {'positions': True}
    if kind == 'Module':
        class OpLock:
            def op_json(self, m):
                js = ev(m, mclass) == MSI.index('Js')
                return {'op': 'visit_lock', 'scheme': SCHEMES[ev(m, scheme)], 'ext': ('d.ts' if MT[ev(m, mt)] == 'Dts' else 'ts') if js else 'json', 'lockfile_has_entry': ev(m, locker_has)}
            def decode(self, m):
                w_ = ev(m, wrote)
                good = any(ev(m, g) and ev(m, sp) == 0 and ev(m, tok) == ev(m, bytes_tok) + 100 for g, sp, tok in lock_writes)
                return {'is_module': True, 'written': w_, 'digest_of_the_module_bytes': good if w_ else None}
        # natively rebuildable: an ordinary module (TypeScript, a .d.ts declaration, or JSON) behind https / http / file, locker present
        real = [z3.Not(has_pending_load), z3.Not(has_vi), has_locker, z3.Or([scheme == SCHEMES.index(x) for x in ('https', 'http', 'file')]), z3.Not(pre_present), z3.Not(is_root),
                z3.Or(mclass == MSI.index('Json'), z3.And(mclass == MSI.index('Js'), z3.Or(mt == MT.index('TypeScript'), mt == MT.index('Dts'))))]
        lkw = dict(ops=[OpLock()], world=VW(), realizable=real)
        class OpDeferred:
            # replayed through a real build: a jsr: import of a package with embedded module information, nothing cached (cache-only probe finds
            # nothing), the deferred content load delivers the module: the scripted loader records what each call carried
            def op_json(self, m):
                return {'op': 'try_load', 'asset': False, 'checksum_known': False, 'answers': ['NotFound', 'Module'], 'parse_ok': True, 'in_dynamic_branch': False,
                        'redirect_count': 0, 'max_redirects': 10, 'route': 'jsr_specifier', 'embedded_info': True}
            def decode(self, m):
                CSN = en['CacheSetting']
                second = [{'cache_setting': CSN[ev(m, l[2])], 'checksum': ev(m, l[3])} for l in loads if ev(m, l[0])]
                return {'calls': [{'cache_setting': 'Only', 'checksum': True}] + second, 'result': 'module', 'err_has_referrer': None}
        dkw = dict(ops=[OpDeferred()], world=VW(), realizable=[has_pending_load, has_vi, has_ref, z3.Not(is_root), z3.Not(in_dyn), z3.Not(was_dyn_root), scheme == SCHEMES.index('https'),
                                                                 mclass == MSI.index('Js'), mt == MT.index('TypeScript'), pre_present, pre_pending])
        is_decl = Or(z3.And(mclass == MSI.index('Js'), mt == MT.index(x)) for x in ('Dts', 'Dmts', 'Dcts'))
        remote = z3.Or(scheme == SCHEMES.index('https'), scheme == SCHEMES.index('http'))
        must_write = z3.And(z3.Not(has_pending_load), z3.Not(has_vi), z3.Not(is_decl), remote, has_locker, z3.Not(locker_has))
        bytes_tok = z3.If(mclass == MSI.index('Wasm'), z3.BitVecVal(WASM, 8), z3.BitVecVal(TEXT, 8))
        qs += [Query('a-new-remote-non-declaration-module-gets-its-checksum-recorded-exactly-once', z3.Or(wrote != must_write, Or(z3.And(lock_writes[i][0], lock_writes[j][0]) for i in range(len(lock_writes)) for j in range(i + 1, len(lock_writes)))), **lkw),
               Query('an-existing-lockfile-entry-is-never-overwritten', z3.And(locker_has, wrote), **lkw),
               Query('the-recorded-checksum-is-the-digest-of-the-bytes-of-that-module-under-its-specifier', Or(z3.And(g, z3.Or(sp != 0, tok != bytes_tok + 100)) for g, sp, tok in lock_writes), **lkw),
               Query('a-deferred-content-load-asks-the-loader-once-with-the-manifest-checksum',
                     z3.Or(Or(g for g, *_ in loads) != has_pending_load, Or(z3.And(l[0], z3.Or(l[1] != 0, z3.Not(l[3]), l[4] != CK_MANIFEST, l[2] != en['CacheSetting'].index('Use'), l[5] != in_dyn, l[6] != was_dyn_root)) for l in loads),
                           Or(z3.And(loads[i][0], loads[j][0]) for i in range(len(loads)) for j in range(i + 1, len(loads)))), **dkw),
               Query('the-module-entry-is-stored-under-its-specifier', z3.Not(z3.And(post.present[0], post.vals[0].tag == SL.index('Module'))) if isinstance(post.vals[0], EnumV) else z3.BoolVal(True)),
               Query('a-root-is-remembered-as-resolved', roots_after.mem[0] != is_root),
               Query('witness-checksum-recorded', wrote, expect='sat', kind='witness', **lkw),
               Query('witness-declaration-file-not-recorded', z3.And(is_decl, remote, has_locker, z3.Not(locker_has), z3.Not(has_vi), z3.Not(has_pending_load)), expect='sat', kind='witness', **lkw),
               Query('witness-deferred-content-load', Or(g for g, *_ in loads), expect='sat', kind='witness', **dkw)]
    elif kind == 'External':
        pv = post.vals[0]
        ext_ok = z3.And(post.present[0], pv.tag == SL.index('Module')) if isinstance(pv, EnumV) else z3.BoolVal(False)
        qs += [Query('no-lockfile-write-and-no-load-for-an-external-answer', z3.Or(wrote, Or(g for g, *_ in loads))),
               Query('a-pending-or-absent-entry-becomes-the-external-module-an-earlier-module-is-kept',
                     z3.Or(z3.And(z3.Or(z3.Not(pre_present), pre_pending), z3.Not(ext_ok)), z3.And(pre_present, z3.Not(pre_pending), z3.Not(z3.And(post.present[0], pv.tag == SL.index('Module'))))))]
    else:
        qs += [Query('no-lockfile-write-and-no-load-for-a-redirect-answer', z3.Or(wrote, Or(g for g, *_ in loads))),
               Query('a-redirect-answer-is-handed-back-to-the-load-step-once-with-its-count', z3.Or(z3.Not(Or(g for g, *_ in reloads)), Or(z3.And(g, c_ != resp_vals['Redirect']['count']) for g, c_, o in reloads), z3.BoolVal(len(reloads) != 1)))]
    return eng, VW(), list(sym.cons), qs

_cubes0, _name0, _build0 = cubes, cube_name, build
def cubes(tier, has_fc): return _cubes0(tier, has_fc) + [{'visit': True, 'response': r} for r in ('Module', 'External', 'Redirect')] + [{'jsrmeta': True}]
def cube_name(c): return 'version_manifest_load' if c.get('jsrmeta') else 'visit_' + c['response'].lower() if c.get('visit') else _name0(c)
def build(mir, cube):
    if cube.get('jsrmeta'):
        from . import jsrmeta
        return jsrmeta.build(mir, cube)
    return build_visit(mir, cube) if cube.get('visit') else _build0(mir, cube)
