"""C15, inductive form — one step of the walk from an ARBITRARY iterator state that satisfies the walk invariant.

Instead of unrolling a whole walk (N+1 calls of next()), the iterator state itself is symbolic: an arbitrary `seen` set,
an arbitrary `visiting` queue and an arbitrary `previous_module`, constrained only by the invariant Inv below. Obligations:
 (init)  ModuleEntryIterator::new establishes Inv;
 (step)  one call of next() from any state satisfying Inv re-establishes Inv, yields only a reachable, not yet processed,
         yieldable specifier with the right entry kind, and everything else it takes from the queue is not yieldable;
 (final) when next() returns None the processed set is closed under the selected edges, hence equals the reachable set.
Together (induction over the number of calls, which is bounded by N+1 because every call processes at least one new
specifier or ends the walk) they give "yields each specifier once and exactly the reachable set" for walks of any length over
a universe of N specifiers, at the cost of a single symbolic step.

Reachability is not computed as a fixpoint here. `R` below is an ARBITRARY set that contains the seeds (roots, configured
import targets) and is closed under the option-selected edges; the solver shows seen ⊆ R for every such R, hence for the least
one, which is the reachable set (Park induction). Conversely, at exhaustion the processed set contains the seeds and is closed,
so it contains the least such set. The two inclusions are what "exactly the reachable set" means."""
import z3
from ..engine import *
from ..models import *
from ..world import GraphWorld, Sym
from ..ops import WalkOptions, roots_iter, ev
from ..oracle import WalkOracle, Or, And
from ..harness import Query

def build(mir, cube):
    N, D, I = cube['N'], cube['D'], cube['I']
    sym = Sym()
    w = GraphWorld(mir, sym, N, D, I)
    eng = Engine(mir, usize_bits=8, unroll=N + 2, unroll_by_fn={'new': N + 3 * I * w.DI + 2, 'analyze_module_deps': 3 * D + 1, 'next': N + 2})
    w.configure(eng)
    CAP = N + 1
    eng.cfg['DQ'] = CAP
    opts = WalkOptions(w, sym, 'w', {'kind': cube['kind'], 'fd': cube['fd'], 'cj': cube['cj'], 'pfc': cube['pfc']})
    rootsel = [sym.bool(f'wroot{i}') for i in range(N)]
    orc = WalkOracle(w, opts, rootsel)
    R = [sym.bool(f'closed_superset{i}') for i in range(N)]
    yieldable = [z3.Or(orc.is_err[i], orc.entry_module[i], orc.is_redirect[i]) for i in range(N)]
    closure_axioms = [z3.Implies(orc.seed[i], R[i]) for i in range(N)] + [z3.Implies(z3.And(R[i], orc.E[i][j]), R[j]) for i in range(N) for j in range(N)]
    st = mir.structs['ModuleEntryIterator']
    NEXT = mir.find('ModuleEntryIterator', 'next', 'Iterator')
    def sets_of(itval):
        """(seen bits, in-queue bits, queue items, queue length, previous_module) of an iterator value"""
        seen = itval.f[st.index('seen')]; dq = itval.f[st.index('visiting')]; prev = itval.f[st.index('previous_module')]
        inq = [Or(z3.And(z3.ULT(z3.BitVecVal(k, 8), dq.len), dq.items[k] == i) for k in range(len(dq.items))) for i in range(N)]
        return seen.mem, inq, dq, prev

    def prev_info(prev):
        """decode Option<ModuleEntryRef>: (is_some, tag, module index, redirect target)"""
        some = opt_is_some(prev); ent = opt_payload(prev)
        if ent is None: return FALSE, BV(0, 8), BV(255, 8), BV(255, 8)
        midx = BV(255, 8)
        mv = ent.vars.get(0)
        if mv and mv.f and isinstance(mv.f[0], Ptr):
            # pointer into module_slots[i]: recover i from the guarded targets
            for cnd, (r, p) in mv.f[0].targets:
                ks = [s_[1] for s_ in p if s_[0] == 'k']
                if r is w.root and ks: midx = IF(cnd, BV(ks[0], 8), midx)
        eidx = BV(255, 8)
        evv = ent.vars.get(1)
        if evv and evv.f and isinstance(evv.f[0], Ptr):
            for cnd, (r, p) in evv.f[0].targets:
                ks = [s_[1] for s_ in p if s_[0] == 'k']
                if r is w.root and ks: eidx = IF(cnd, BV(ks[0], 8), eidx)
        rt = BV(255, 8)
        rv = ent.vars.get(2)
        if rv and rv.f and rv.f[0] is not None: rt = uid(eng, rv.f[0])
        return some, ent.tag, IF(EQ(ent.tag, BV(1, 8)), eidx, midx), rt

    def invariant(S, V, P, prev_some, prev_tag, prev_idx, prev_rt, pj):
        """Inv over: seen S, queued V, processed P (= S minus V), previous entry, and pj = the specifier whose late edges are still pending"""
        cs = []
        for i in range(N):
            cs.append(S[i] == z3.Or(P[i], V[i])); cs.append(z3.Not(z3.And(P[i], V[i])))
            cs.append(z3.Implies(orc.seed[i], S[i]))                                           # roots and configured imports are seen
            cs.append(z3.Implies(S[i], R[i]))                                                   # seen stays inside every closed superset of the seeds
            for j in range(N):
                cs.append(z3.Implies(z3.And(P[i], orc.E_early[i][j]), S[j]))                   # early edges of processed entries are seen
                cs.append(z3.Implies(z3.And(P[i], z3.Not(z3.And(prev_some, pj == i)), orc.E_late[i][j]), S[j]))   # late edges too, except the pending ones
        # the previous entry is a processed, yielded entry of the right kind
        cs.append(z3.Implies(prev_some, Or(z3.And(pj == i, P[i], yieldable[i], prev_tag == orc.entry_tag(i)) for i in range(N))))
        cs.append(z3.Implies(z3.And(prev_some, prev_tag != 2), prev_idx == pj))
        cs.append(z3.Implies(z3.And(prev_some, prev_tag == 2), Or(z3.And(pj == i, w.mods[i]['red'][1] == prev_rt) for i in range(N))))
        return cs

    qs = []
    if cube['part'] == 'init':
        it = eng.call(mir.find('ModuleGraph', 'walk'), [w.ptr, roots_iter(w, rootsel), opts.value()], TRUE)
        S, V, dq, prev = sets_of(it)
        P = [z3.And(S[i], z3.Not(V[i])) for i in range(N)]
        ps, pt, pi, prt = prev_info(prev)
        inv = invariant(S, V, P, ps, pt, pi, prt, BV(255, 8))
        nodup = Or(z3.And(z3.ULT(z3.BitVecVal(b, 8), dq.len), dq.items[a] == dq.items[b]) for a in range(CAP) for b in range(a + 1, CAP))
        qs.append(Query('new-establishes-the-invariant', z3.Not(And(inv)), world=None))
        qs.append(Query('new-queues-nothing-twice-and-processes-nothing', z3.Or(nodup, Or(P), ps), world=None))
        qs.append(Query('witness-two-queued', z3.ULE(z3.BitVecVal(2, 8), dq.len), expect='sat', kind='witness'))
    else:
        # ---- arbitrary iterator state
        S0 = [sym.bool(f'seen{i}') for i in range(N)]
        items = [sym.bv(f'q{k}', 8, lt=N) for k in range(CAP)]; qlen = sym.bv('qlen', 8, lt=CAP + 1)
        ps0 = sym.bool('prev_some'); pt0 = sym.bv('prev_tag', 8, lt=3); pj0 = sym.bv('prev_spec', 8, lt=N)
        seen = SetModel(S0, sym.bv('seen_count', 8))
        dq0 = DequeModel(items, qlen)
        V0 = [Or(z3.And(z3.ULT(z3.BitVecVal(k, 8), qlen), items[k] == i) for k in range(CAP)) for i in range(N)]
        P0 = [z3.And(S0[i], z3.Not(V0[i])) for i in range(N)]
        # previous_module: a reference to the module / error stored under pj0, or the redirect target recorded for pj0
        slot_path = lambda i, var: (w.root, (('f', mir.structs['ModuleGraph'].index('module_slots')), ('k', i), ('v', var), ('f', 0)))
        mptr = Ptr([(EQ(pj0, BV(i, 8)), slot_path(i, 0)) for i in range(N)])
        eptr = Ptr([(EQ(pj0, BV(i, 8)), slot_path(i, 1)) for i in range(N)])
        rtarget = BV(0, 8)
        for i in range(N): rtarget = IF(EQ(pj0, BV(i, 8)), w.mods[i]['red'][1], rtarget)
        prev0 = opt(ps0, EnumV(pt0, {0: Agg([mptr]), 1: Agg([eptr]), 2: Agg([url_ref(rtarget)])}))
        itv = Agg([{'graph': w.ptr, 'seen': seen, 'visiting': dq0, 'follow_dynamic': opts.fd, 'kind': EnumV(opts.kind, {}), 'check_js': EnumV(opts.cj, {2: Agg([CheckJsV(opts.cjbits)])}),
                    'prefer_fast_check_graph': opts.pfc, 'previous_module': prev0}[f] for f in st])
        itroot = Root(itv, 'iterator'); itptr = Ptr([(TRUE, (itroot, ()))])
        nodup0 = z3.Not(Or(z3.And(z3.ULT(z3.BitVecVal(b, 8), qlen), items[a] == items[b]) for a in range(CAP) for b in range(a + 1, CAP)))
        pre = invariant(S0, V0, P0, ps0, pt0, pj0, rtarget, pj0) + [nodup0]
        r = eng.call(NEXT, [itptr], TRUE)
        some = opt_is_some(r); pair = opt_payload(r)
        yid = uid(eng, pair.f[0]); entry = pair.f[1]
        S1, V1, dq1, prev1 = sets_of(itroot.val)
        P1 = [z3.And(S1[i], z3.Not(V1[i])) for i in range(N)]
        ps1, pt1, pi1, prt1 = prev_info(prev1)
        post = invariant(S1, V1, P1, ps1, pt1, pi1, prt1, yid)
        nodup1 = z3.Not(Or(z3.And(z3.ULT(z3.BitVecVal(b, 8), dq1.len), dq1.items[a] == dq1.items[b]) for a in range(CAP) for b in range(a + 1, CAP)))
        A = And(pre)
        # queue capacity: N+1 slots suffice because queued items are distinct unprocessed specifiers
        qs.append(Query('step-preserves-the-invariant', z3.And(A, some, z3.Not(z3.And(And(post), nodup1, ps1))), world=None))
        qs.append(Query('step-yields-a-reachable-unprocessed-yieldable-entry-of-the-right-kind',
                        z3.And(A, some, z3.Not(Or(z3.And(yid == i, R[i], yieldable[i], z3.Not(P0[i]), entry.tag == orc.entry_tag(i)) for i in range(N)))), world=None))
        qs.append(Query('everything-else-taken-from-the-queue-is-not-yieldable', z3.And(A, Or(z3.And(P1[i], z3.Not(P0[i]), z3.Or(z3.Not(some), yid != i), yieldable[i]) for i in range(N))), world=None))
        qs.append(Query('processed-set-only-grows', z3.And(A, Or(z3.And(P0[i], z3.Not(P1[i])) for i in range(N))), world=None))
        # final: None => queue empty, nothing pending, processed set closed => equals the reachable set
        closed = And(z3.Implies(z3.And(S1[i], orc.E[i][j]), S1[j]) for i in range(N) for j in range(N))
        qs.append(Query('on-exhaustion-the-processed-set-contains-the-seeds-is-closed-and-lies-in-every-closed-superset', z3.And(A, z3.Not(some), z3.Not(z3.And(closed, And(z3.Implies(orc.seed[i], S1[i]) for i in range(N)), And(z3.Implies(S1[i], R[i]) for i in range(N)), z3.Not(Or(V1))))), world=None))
        qs.append(Query('progress-each-call-processes-something-new-or-ends', z3.And(A, some, And(P1[i] == P0[i] for i in range(N))), world=None))
        qs.append(Query('witness-mid-walk-state-with-pending-redirect', z3.And(A, ps0, pt0 == 2, some, Or(P0)), expect='sat', kind='witness'))
        qs.append(Query('witness-exhaustion-reachable-from-a-nontrivial-state', z3.And(A, z3.Not(some), Or(P0), ps0), expect='sat', kind='witness'))
    for fname in sorted({f for f, _ in eng.exceeded}):
        qs.insert(0, Query('unwinding:' + fname.split('>::')[-1], Or(g for f, g in eng.exceeded if f == fname), kind='unwind'))
    # capacities/unwinding only matter under the invariant in the step cubes
    guard = And(pre) if cube['part'] != 'init' else z3.BoolVal(True)
    for q in qs:
        if q.kind == 'unwind': q.formula = z3.And(guard, q.formula)
    qs.insert(0, Query('model-capacity', z3.And(guard, Or(g for _, g in eng.obligations)), kind='obligation'))
    qs.insert(0, Query('no-panic', z3.And(guard, Or(g for _, g in eng.panics))))
    return eng, w, sym.cons + w.invariant() + closure_axioms, qs
