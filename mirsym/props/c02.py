"""C02 — validation fails exactly when a followed edge reaches a failure.

Decided on an arbitrary graph state: walk(roots, options).validate() and ModuleGraph::valid() are executed from
MIR; the oracle is the failure predicate of the statement over the option-selected reachable set (oracle.py)."""
import z3
from ..engine import *
from ..models import *
from ..world import GraphWorld, Sym
from ..ops import WalkOptions, Walk, Validate, ev
from ..oracle import WalkOracle, Or, And, redirects_regular
from ..harness import Query

ID = 'C02'
DEFAULT_FEATURES = True   # fast-check data is part of the graph state
BUILD_PROBES = True   # evidence: the states behind the recorded findings are produced by the real builder
ASSUMPTIONS = [
    'graph state satisfies the representation invariant of DESIGN.md section 3 (module specifier = key, no self-redirect, distinct dependency texts, code-only graphs carry no type data)',
    'CheckJsOption::Custom is a pure predicate; logging is disabled; Url is an atom with a symbolic scheme; specifier text only matters through key equality and the attribute "lower-cased text starts with file://"',
    'roots are iterated in specifier-id order (the verdict and the set of reported failures do not depend on it; which failure is reported first does)',
]

def cubes(tier, has_fc):
    out = []
    sizes = [(3, 1, 1)] if tier == 'quick' else [(3, 2, 1), (4, 1, 1)]
    for (N, D, I) in sizes:
        for kind in range(3):
            for fd in (False, True):
                cjs = [0] if kind == 1 else [0, 1, 2]
                for cj in cjs:
                    pfcs = [False, True] if (has_fc and kind != 1) else [False]
                    for pfc in pfcs:
                        # quick: the identity of the reported error is decided on the cubes without fast-check preference only
                        out.append({'N': N, 'D': D, 'I': I, 'kind': kind, 'fd': fd, 'cj': cj, 'pfc': pfc, 'valid': False, 'identity': (tier != 'quick') or not pfc})
        out.append({'N': N, 'D': D, 'I': I, 'kind': 1, 'fd': False, 'cj': 0, 'pfc': False, 'valid': True})
    if tier == 'quick':
        # one specifier more, for shapes that need four (a module importing through a two-hop redirect chain): dynamic imports followed
        for kind in range(3):
            out.append({'N': 4, 'D': 1, 'I': 0, 'kind': kind, 'fd': True, 'cj': 0, 'pfc': False, 'valid': False, 'identity': False})
    return out

def cube_name(c):
    if c['valid']: return f"N{c['N']}D{c['D']}I{c['I']}_valid"
    return f"N{c['N']}D{c['D']}I{c['I']}_k{c['kind']}_fd{int(c['fd'])}_cj{c['cj']}_pfc{int(c['pfc'])}"

def known_signatures(w, orc, strict, inplace):
    """structural signatures of recorded findings (known_findings.jsonl lists which are active)"""
    N = w.N
    # KF-C02-missing-without-referring-edge: dynamic imports are followed, a Missing module is reachable (root, configured import
    # target, or behind a redirect/cycle nobody imports through a checked edge), and nothing else fails
    return [('missing-entry-without-referring-edge', z3.And(orc.o.fd, strict, z3.Not(inplace))),
            # validation with follow_dynamic resolves edge targets through ModuleGraph::resolve and inherits its C14 findings
            ('in-place-missing-check-on-irregular-redirects', z3.And(orc.o.fd, z3.Not(redirects_regular(w))))]

def build(mir, cube):
    N, D, I = cube['N'], cube['D'], cube['I']
    sym = Sym()
    w = GraphWorld(mir, sym, N, D, I)
    eng = Engine(mir, usize_bits=8, unroll=N + 2, unroll_by_fn={'new': N + 3 * I * w.DI + 2, 'analyze_module_deps': 3 * D + 1, 'resolve': N + 1,
                              mir.find('ModuleGraphErrorIterator', 'next', 'Iterator'): (N + 1) + N * D + 1})
    w.configure(eng)
    eng.cfg['VEC'] = 2 * D + 2
    fixed = {'kind': cube['kind'], 'fd': cube['fd'], 'cj': cube['cj'], 'pfc': cube['pfc']}
    opts = WalkOptions(w, sym, 'w', fixed)
    if cube['valid']:
        rootsel = w.rootsel
        val = Validate(eng, w, use_valid=True)
    else:
        rootsel = [sym.bool(f'wroot{i}') for i in range(N)]
        val = Validate(eng, w, opts, rootsel)
    orc = WalkOracle(w, opts, rootsel)
    fails_inplace = orc.failures(True)
    fails_strict = orc.failures(False)
    inplace = Or(c for c, _ in fails_inplace)
    strict = Or(c for c, _ in fails_strict)
    base = sym.cons + w.invariant()
    known = known_signatures(w, orc, strict, inplace)
    qs = []
    for fname in sorted({f for f, _ in eng.exceeded}):
        qs.append(Query('unwinding:' + fname.split('>::')[-1], Or(g for f, g in eng.exceeded if f == fname), kind='unwind'))
    qs.append(Query('model-capacity', Or(g for _, g in eng.obligations), kind='obligation'))
    qs.append(Query('no-panic', Or(g for _, g in eng.panics), ops=[val], world=w))
    # (i) soundness: validation fails only if a failure is reachable along the selected edges
    qs.append(Query('fails-only-if-failure-reachable', z3.And(val.is_err, z3.Not(inplace)), ops=[val], world=w, known=known[1:]))
    # (ii) completeness against the literal statement: a reachable failure is never silently skipped
    qs.append(Query('reachable-failure-never-skipped', z3.And(z3.Not(val.is_err), strict), ops=[val], world=w, known=known,
                    describe=lambda m: {'reachable_failures': [d[:3] for c, d in fails_strict if ev(m, c)]}))
    # (iii) the reported error names a reachable failing specifier / referring location
    if val.err is not None and (cube.get('identity', True)):
        e = val.err
        ok_id = []
        for c, d in fails_inplace:
            if d[0] == 'entry':
                ok_id.append(z3.And(c, e['cat'] == 0, e['spec'] == d[1]))
            else:
                rid = d[3][2]
                # resolution failures carry the referring range; in-place missing errors carry the missing specifier
                ok_id.append(z3.And(c, z3.Or(z3.And(e['cat'] != 0, e['rid'] == rid), z3.And(e['cat'] == 0, orc.missing_at(e['spec'])))))
        qs.append(Query('reported-error-identifies-a-reachable-failure', z3.And(val.is_err, z3.Not(Or(ok_id))), ops=[val], world=w, known=known[1:]))
    # vacuity witnesses
    qs.append(Query('witness-fails', z3.And(val.is_err, inplace), expect='sat', kind='witness', ops=[val], world=w))
    qs.append(Query('witness-passes-with-unreachable-failure', z3.And(z3.Not(val.is_err), Or(w.is_err(i) for i in range(N))), expect='sat', kind='witness', ops=[val], world=w))
    if cube['kind'] == 1 or cube['valid']:
        type_only_fail = Or(z3.And(w.has_deps(i), d['p'], d['type'][0] == 2) for i in range(N) for d in w.mods[i]['deps'])
        qs.append(Query('witness-type-only-failure-does-not-fail-code-validation', z3.And(z3.Not(val.is_err), type_only_fail, w.gkind == 0, Or(rootsel)), expect='sat', kind='witness', ops=[val], world=w))
    return eng, w, base, qs

def differential(mir, seed, count):
    from ..differential import graph_differential
    return graph_differential(mir, seed, count)
