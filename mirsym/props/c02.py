"""C02 — validation fails exactly when a followed edge reaches a failure.

Decided on an arbitrary graph state: walk(roots, options).validate() and ModuleGraph::valid() are executed from
MIR; the oracle is the failure predicate of the statement over the option-selected reachable set (oracle.py)."""
import z3
from ..engine import *
from ..models import *
from ..world import GraphWorld, Sym
from ..ops import WalkOptions, Walk, Validate, ev, graph_error_fields
from ..oracle import WalkOracle, Or, And, redirects_regular
from ..harness import Query

ID = 'C02'
DEFAULT_FEATURES = True   # fast-check data is part of the graph state
BUILD_PROBES = True   # evidence: the states behind the recorded findings are produced by the real builder
QUERY_SLICES = 2      # the slow obligations of one cube (up to ~4 min each) are decided on different cores
ASSUMPTIONS = [
    'graph state satisfies the representation invariant of DESIGN.md section 3 (module specifier = key, no self-redirect, distinct dependency texts, code-only graphs carry no type data)',
    'CheckJsOption::Custom is a pure predicate; logging is disabled; Url is an atom with a symbolic scheme; specifier text only matters through key equality and the attribute "lower-cased text starts with file://"',
    'roots are iterated in specifier-id order (the verdict and the set of reported failures do not depend on it; which failure is reported first does)',
]

def cubes(tier, has_fc):
    out = []
    # N=3,D=1,I=1 costs up to ~8 min of z3 per obligation; N=3,D=2 / N=4,I=1 did not finish in the per-query budget, so the thorough
    # tier deepens by deciding the identity obligation on every cube and by the four-specifier worlds below instead
    for (N, D, I) in [(3, 1, 1)]:
        for kind in range(3):
            for fd in (False, True):
                cjs = [0] if kind == 1 else [0, 1, 2]
                for cj in cjs:
                    pfcs = [False, True] if (has_fc and kind != 1 and (tier != 'quick' or cj == 0)) else [False]      # quick: fast-check preference with check_js=true only
                    for pfc in pfcs:
                        # quick (must stay well under 15 min on a loaded machine): the identity of the reported error and the vacuity witnesses are
                        # decided on the check_js=true cubes without fast-check preference only; the thorough tier decides them on every cube
                        out.append({'N': N, 'D': D, 'I': I, 'kind': kind, 'fd': fd, 'cj': cj, 'pfc': pfc, 'valid': False, 'identity': (tier != 'quick') or (not pfc and cj == 0), 'witnesses': (tier != 'quick') or cj == 0})
        out.append({'N': N, 'D': D, 'I': I, 'kind': 1, 'fd': False, 'cj': 0, 'pfc': False, 'valid': True})
    # per-edge kernel: check_resolution on an arbitrary (module, resolution) pair, larger universe (no walk is unrolled)
    for fd in (False, True):
        out.append({'edge': True, 'N': 6 if tier == 'quick' else 8, 'D': 1, 'I': 0, 'fd': fd, 'kind': 0, 'cj': 0, 'pfc': False, 'valid': False})
    # one specifier more, for shapes that need four (a module importing through a two-hop redirect chain)
    if tier == 'quick':
        for kind in range(3):
            out.append({'N': 4, 'D': 1, 'I': 0, 'kind': kind, 'fd': True, 'cj': 0, 'pfc': False, 'valid': False, 'identity': False})
    else:
        for kind in range(3):
            for fd in (False, True):
                for cj in ([0] if kind == 1 else [0, 1, 2]):
                    out.append({'N': 4, 'D': 1, 'I': 0, 'kind': kind, 'fd': fd, 'cj': cj, 'pfc': False, 'valid': False, 'identity': False})
    return out

def cube_name(c):
    if c.get('edge'): return f"edge_N{c['N']}_fd{int(c['fd'])}"
    if c['valid']: return f"N{c['N']}D{c['D']}I{c['I']}_valid"
    return f"N{c['N']}D{c['D']}I{c['I']}_k{c['kind']}_fd{int(c['fd'])}_cj{c['cj']}_pfc{int(c['pfc'])}"

def known_signatures(w, orc, strict, inplace):
    """structural signatures of recorded findings (known_findings.jsonl lists which are active)"""
    N = w.N
    # KF-C02-missing-without-referring-edge: dynamic imports are followed, a Missing module is reachable (root, configured import
    # target, or behind a redirect/cycle nobody imports through a checked edge), and nothing else fails
    return [('missing-entry-without-referring-edge', z3.And(orc.o.fd, strict, z3.Not(inplace))),
            # validation with follow_dynamic resolves edge targets through ModuleGraph::resolve and inherits its C14 findings
            ('in-place-missing-check-on-irregular-redirects', z3.And(orc.o.fd, z3.Not(redirects_regular(w))))]

def build_edge(mir, cube):
    """ModuleGraphErrorIterator::check_resolution on an arbitrary module of the graph and an arbitrary resolution: the policy
    decisions of the statement (failed resolution, HTTPS->HTTP, remote importing a literal file: URL, in-place missing module)"""
    N = cube['N']
    sym = Sym()
    w = GraphWorld(mir, sym, N, 1, 0)
    eng = Engine(mir, usize_bits=8, unroll=N + 2, unroll_by_fn={'resolve': N + 1})
    w.configure(eng)
    opts = WalkOptions(w, sym, 'w', {'kind': 0, 'fd': cube['fd'], 'cj': 0, 'pfc': False})
    st = mir.structs
    it = Agg([{'graph': w.ptr, 'follow_dynamic': opts.fd, 'kind': EnumV(opts.kind, {}), 'check_js': EnumV(0, {}), 'prefer_fast_check_graph': FALSE}.get(f, O) for f in st['ModuleEntryIterator']])
    eit = Agg([{'iterator': it}.get(f, O) for f in st['ModuleGraphErrorIterator']])
    i = sym.bv('module', 8, lt=N); rkind = sym.bv('resolution_kind', 8, lt=2); text = sym.bv('text', 8, lt=w.ntext); isdyn = sym.bool('is_dynamic')
    res, (rk, rt, rid) = w.resolution('probe', 0, ('probe',))
    mpath = lambda k: (w.root, (('f', st['ModuleGraph'].index('module_slots')), ('k', k), ('v', 0), ('f', 0)))
    mptr = Ptr([(EQ(i, BV(k, 8)), mpath(k)) for k in range(N)])
    r = eng.call(mir.find('ModuleGraphErrorIterator', 'check_resolution'), [ref_to(eit, 'err-iter'), mptr, EnumV(rkind, {}), ref_to(TextV(text), 'text'), ref_to(res, 'resolution'), isdyn], TRUE)
    some = opt_is_some(r); e = graph_error_fields(eng, opt_payload(r))
    from ..ops import graph_error_fields as _g
    orc = WalkOracle(w, opts, [z3.BoolVal(False)] * N)
    pre = Or(z3.And(i == k, w.is_module(k)) for k in range(N))       # the referrer is a module of the graph
    def at_i(f): return Or(z3.And(i == k, f(k)) for k in range(N))
    tfile = Or(z3.And(text == t, w.text_lower_file[t]) for t in range(w.ntext))
    sch = lambda u, name: Or(z3.And(u == k, w.scheme[k] == SCHEMES.index(name)) for k in range(N))
    ref_https, ref_http = sch(i, 'https'), sch(i, 'http')
    downgrade = z3.And(rk == 1, ref_https, sch(rt, 'http'))
    local = z3.And(rk == 1, z3.Not(downgrade), z3.Or(ref_https, ref_http), sch(rt, 'file'), tfile)
    fin = orc.final_of(rt)
    missing = z3.And(rk == 1, z3.Not(downgrade), z3.Not(local), opts.fd, orc.missing_at(fin))
    exp_some = z3.Or(rk == 2, downgrade, local, missing)
    RE = mir.enums['ResolutionError']; MK = mir.enums['ModuleErrorKind']
    exp_cat = z3.If(missing, z3.BitVecVal(0, 8), z3.If(rkind == 0, z3.BitVecVal(1, 8), z3.BitVecVal(2, 8)))
    exp_kind = z3.If(missing, z3.If(isdyn, z3.BitVecVal(MK.index('MissingDynamic'), 8), z3.BitVecVal(MK.index('Missing'), 8)),
                     z3.If(downgrade, z3.BitVecVal(RE.index('InvalidDowngrade'), 8), z3.If(local, z3.BitVecVal(RE.index('InvalidLocalImport'), 8), z3.BitVecVal(RE.index('ResolverError'), 8))))
    known = [('in-place-missing-check-on-irregular-redirects', z3.And(opts.fd, z3.Not(redirects_regular(w))))]
    qs = [Query('an-edge-is-reported-iff-the-statement-calls-it-a-failure', z3.And(pre, some != exp_some), known=known),
          Query('the-report-has-the-right-category-and-kind', z3.And(pre, some, exp_some, z3.Or(e['cat'] != exp_cat, e['kind'] != exp_kind)), known=known),
          Query('the-report-names-the-referring-range-or-the-missing-specifier', z3.And(pre, some, exp_some, z3.Not(z3.If(missing, e['spec'] == fin, e['rid'] == rid))), known=known),
          Query('witness-in-place-missing-behind-a-redirect', z3.And(pre, some, missing, rt != fin), expect='sat' if cube['fd'] else 'unsat', kind='witness' if cube['fd'] else 'property'),
          Query('witness-downgrade', z3.And(pre, some, downgrade), expect='sat', kind='witness')]
    for fname in sorted({f for f, _ in eng.exceeded}):
        qs.insert(0, Query('unwinding:' + fname.split('>::')[-1], Or(g for f, g in eng.exceeded if f == fname), kind='unwind'))
    qs.insert(0, Query('model-capacity', Or(g for _, g in eng.obligations), kind='obligation'))
    qs.insert(0, Query('no-panic', z3.And(pre, Or(g for _, g in eng.panics))))
    return eng, w, sym.cons + w.invariant(), qs

def build(mir, cube):
    if cube.get('edge'): return build_edge(mir, cube)
    N, D, I = cube['N'], cube['D'], cube['I']
    sym = Sym()
    w = GraphWorld(mir, sym, N, D, I)
    eng = Engine(mir, usize_bits=8, unroll=N + 2, unroll_by_fn={'new': N + 3 * I * w.DI + 2, 'analyze_module_deps': 3 * D + 1, 'resolve': N + 1,
                              mir.find('ModuleGraphErrorIterator', 'next', 'Iterator'): (N + 1) + N * D + 1})
    w.configure(eng)
    eng.cfg['VEC'] = 2 * D + 2
    fixed = {'kind': cube['kind'], 'fd': cube['fd'], 'cj': cube['cj'], 'pfc': cube['pfc']}
    opts = WalkOptions(w, sym, 'w', fixed)
    if cube['valid']:
        rootsel = w.rootsel
        val = Validate(eng, w, use_valid=True)
    else:
        rootsel = [sym.bool(f'wroot{i}') for i in range(N)]
        val = Validate(eng, w, opts, rootsel)
    orc = WalkOracle(w, opts, rootsel)
    fails_inplace = orc.failures(True)
    fails_strict = orc.failures(False)
    inplace = Or(c for c, _ in fails_inplace)
    strict = Or(c for c, _ in fails_strict)
    base = sym.cons + w.invariant()
    known = known_signatures(w, orc, strict, inplace)
    qs = []
    for fname in sorted({f for f, _ in eng.exceeded}):
        qs.append(Query('unwinding:' + fname.split('>::')[-1], Or(g for f, g in eng.exceeded if f == fname), kind='unwind'))
    qs.append(Query('model-capacity', Or(g for _, g in eng.obligations), kind='obligation'))
    qs.append(Query('no-panic', Or(g for _, g in eng.panics), ops=[val], world=w))
    # (i) soundness: validation fails only if a failure is reachable along the selected edges
    qs.append(Query('fails-only-if-failure-reachable', z3.And(val.is_err, z3.Not(inplace)), ops=[val], world=w, known=known[1:]))
    # (ii) completeness against the literal statement: a reachable failure is never silently skipped
    qs.append(Query('reachable-failure-never-skipped', z3.And(z3.Not(val.is_err), strict), ops=[val], world=w, known=known,
                    describe=lambda m: {'reachable_failures': [d[:3] for c, d in fails_strict if ev(m, c)]}))
    # (iii) the reported error names a reachable failing specifier / referring location
    if val.err is not None and (cube.get('identity', True)):
        e = val.err
        ok_id = []
        for c, d in fails_inplace:
            if d[0] == 'entry':
                ok_id.append(z3.And(c, e['cat'] == 0, e['spec'] == d[1]))
            else:
                rid = d[3][2]
                # resolution failures carry the referring range; in-place missing errors carry the missing specifier
                ok_id.append(z3.And(c, z3.Or(z3.And(e['cat'] != 0, e['rid'] == rid), z3.And(e['cat'] == 0, orc.missing_at(e['spec'])))))
        # (a case split on the error category was tried and made z3 3-6x slower per case: one query it stays)
        qs.append(Query('reported-error-identifies-a-reachable-failure', z3.And(val.is_err, z3.Not(Or(ok_id))), ops=[val], world=w, known=known[1:]))
    # vacuity witnesses
    if cube.get('witnesses', True):
        qs.append(Query('witness-fails', z3.And(val.is_err, inplace), expect='sat', kind='witness', ops=[val], world=w))
        qs.append(Query('witness-passes-with-unreachable-failure', z3.And(z3.Not(val.is_err), Or(w.is_err(i) for i in range(N))), expect='sat', kind='witness', ops=[val], world=w))
    if cube['kind'] == 1 or cube['valid']:
        type_only_fail = Or(z3.And(w.has_deps(i), d['p'], d['type'][0] == 2) for i in range(N) for d in w.mods[i]['deps'])
        qs.append(Query('witness-type-only-failure-does-not-fail-code-validation', z3.And(z3.Not(val.is_err), type_only_fail, w.gkind == 0, Or(rootsel)), expect='sat', kind='witness', ops=[val], world=w))
    return eng, w, base, qs

def differential(mir, seed, count):
    from ..differential import graph_differential
    return graph_differential(mir, seed, count)
