"""C03 (partial) — every load outcome is settled: no panic, a definite response or error naming the affected specifier and its referrer,
and no entry left pending by the completion step.

Three kernels, all of builder code the statement anchors:
 * `try_load` (the async fn that makes every loader call of a module or asset load; coroutine MIR, one poll, every awaited future an
   arbitrary ready result — see C05): for every assignment of an outcome (module | redirect | external/cached | not found | checksum
   error | other error) to the first call and to the retry, every manifest outcome for registry URLs and every parse outcome, the
   function returns Ready(Ok(response)) or Ready(Err(error)) without panicking; every Load / Missing error names the requested specifier
   (the package URL for a failed manifest load) and carries the request's referrer; not-found is a Missing error, a loader failure a
   Load(Loader) error, a delivered module / cached asset / external answer a response.
 * `Builder::visit` (completion of a load): a module or external answer leaves the specifier with a settled entry, never Pending; a
   redirect answer is handed back to the load step exactly once.
 * `Builder::add_redirect`: the pending entry of a redirected request is removed (and only a pending one, only that one), the redirect
   is recorded unless one exists for that specifier (first recorded target is kept), everything else is untouched.
NOT covered: the scheduling loop (resolve_pending: which futures are awaited when, restarts), registry metadata loads (jsr.rs), npm
resolution, deferred content loads, serialisation — i.e. termination of a whole build and faults at those load calls."""
import z3, re
from ..engine import *
from ..models import *
from ..world import Sym, GraphWorld
from ..oracle import Or, And
from ..harness import Query
from . import c05

ID = 'C03'
ASSUMPTIONS = c05.ASSUMPTIONS + ['add_redirect runs on the graph state of DESIGN.md section 3 (no self-redirect is ever requested: debug_assert_ne in the function)']

def cubes(tier, has_fc):
    return [{'asset': a, 'from': 'try_load', 'c03': True} for a in (False, True)] + [{'visit': True, 'response': r, 'c03': True} for r in ('Module', 'External', 'Redirect')] + [{'add_redirect': True, 'N': 3 if tier == 'quick' else 5}, {'jsrmeta': True, 'c03': True}, {'content_load': True, 'c03': True}]
def cube_name(c):
    if c.get('content_load'): return 'deferred_content_load'
    if c.get('add_redirect'): return f"add_redirect_N{c['N']}"
    return c05.cube_name(c)

def build_add_redirect(mir, cube):
    N = cube['N']
    sym = Sym()
    st, en = dict(mir.structs), mir.enums
    w = GraphWorld(mir, sym, N, 0, 0)
    eng = Engine(mir, usize_bits=8, unroll=N + 2)
    w.configure(eng)
    r, t = sym.bv('requested', 8, lt=N), sym.bv('target', 8, lt=N)
    builder = Root(Agg([{'graph': w.ptr}.get(f, O) for f in st['Builder']]), 'builder')
    pre_p, pre_kind = list(w.slot_map.present), [w.mods[u]['slotkind'] for u in range(N)]
    pre_rp, pre_rt = [w.mods[u]['red'][0] for u in range(N)], [w.mods[u]['red'][1] for u in range(N)]
    eng.call(mir.find('Builder', 'add_redirect'), [Ptr([(TRUE, (builder, ()))]), UrlV(r), UrlV(t)], TRUE)
    g = w.root.val; slots = g.f[st['ModuleGraph'].index('module_slots')]; reds = g.f[st['ModuleGraph'].index('redirects')]
    bad_slots, bad_reds = [], []
    for u in range(N):
        was_pending = z3.And(pre_p[u], pre_kind[u] == 2)
        exp_present = z3.And(pre_p[u], z3.Not(z3.And(r == u, was_pending)))
        bad_slots.append(z3.Or(slots.present[u] != exp_present, z3.And(exp_present, slots.vals[u].tag != pre_kind[u])))
        exp_rp = z3.Or(pre_rp[u], r == u)
        exp_rt = z3.If(pre_rp[u], pre_rt[u], t)
        tv = reds.vals[u]
        bad_reds.append(z3.Or(reds.present[u] != exp_rp, z3.And(exp_rp, (tv.id != exp_rt) if isinstance(tv, UrlV) else z3.BoolVal(True))))
    base = list(sym.cons) + w.invariant() + [r != t]
    from ..ops import GraphView, ev
    view = GraphView(mir, w.root.val, N)
    class RW:
        has_fc = True       # BuildOptions::default() in the hook needs the swc-enabled replay binary
        def to_json(self, m): return w.to_json(m)
    class OpAR:
        def op_json(self, m): return {'op': 'add_redirect', 'requested': ev(m, r), 'target': ev(m, t)}
        def decode(self, m):
            g_ = view.decode(m)
            for sl in g_['slots'].values():
                if sl.get('kind') == 'js': sl.setdefault('fast_check', None)      # this MIR dump is built without the fast_check field; the replay binary has it (always None here)
            return {'graph': g_, 'then': []}
    kw = dict(ops=[OpAR()], world=RW())
    qs = [Query('no-panic', Or(gd for _, gd in eng.panics)), Query('model-capacity', Or(gd for _, gd in eng.obligations), kind='obligation'),
          Query('only-the-pending-entry-of-the-redirected-request-is-removed', Or(bad_slots), **kw),
          Query('the-redirect-is-recorded-and-an-existing-one-is-kept', Or(bad_reds), **kw),
          Query('witness-pending-entry-dropped', Or(z3.And(r == u, pre_p[u], pre_kind[u] == 2) for u in range(N)), expect='sat', kind='witness', **kw)]
    for fname in sorted({f for f, _ in eng.exceeded}): qs.append(Query('unwinding:' + fname.split('>::')[-1], Or(gd for f, gd in eng.exceeded if f == fname), kind='unwind'))
    return eng, RW(), base, qs

def build(mir, cube):
    if cube.get('add_redirect'): return build_add_redirect(mir, cube)
    if cube.get('content_load'):
        from . import contentload
        return contentload.build(mir, cube)
    return c05.build(mir, cube)

def differential(mir, seed, count): return c05.differential(mir, seed, count)

def native_probes():
    """regression probe for the repaired defect recorded in known_findings.jsonl (fixed: property=C03 298524d): a loader that redirects a
    specifier to itself. The repaired behaviour: the follow-up loads go out until the redirect limit, the specifier ends as a
    TooManyRedirects error, nothing is left pending and serialisation shows no internal-error marker."""
    op = {'op': 'try_load', 'serialize': True, 'asset': False, 'checksum_known': False, 'answers': ['SelfRedirect'] * 14, 'parse_ok': True, 'in_dynamic_branch': False,
          'redirect_count': 0, 'max_redirects': 10, 'route': 'plain'}
    return [('loader-redirects-a-specifier-to-itself', {'world': {'positions': True}, 'ops': [op]}, {'result': 'err:Load:TooManyRedirects', 'internal_error_in_serialisation': False})]
