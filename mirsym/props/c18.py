"""C18 — a graph segment is self-contained (decided on arbitrary graph states, all graph kinds, arbitrary segment roots).

The real segment() is executed from MIR; the same lookups, dependency resolutions and validations are then executed on the
segment and on the original and must agree for everything the segment contains. Equality with a direct *build* is outside."""
import z3
from ..engine import *
from ..models import *
from ..world import GraphWorld, Sym
from ..ops import Segment, Lookup, ResolveDependency, Validate, WalkOptions, GraphView, ev
from ..oracle import WalkOracle, Or, And, redirects_regular
from ..harness import Query

ID = 'C18'
DEFAULT_FEATURES = True   # fast-check data is part of the graph state
BUILD_PROBES = True   # evidence: the states behind the recorded findings are produced by the real builder
ASSUMPTIONS = [
    'representation invariant of DESIGN.md section 3; segment roots are an arbitrary subset of the specifier universe passed in id order',
    'equality with a direct build of the segment roots is NOT decided (needs the async builder); the segment is compared with the original graph and with the walk oracle',
]

def cubes(tier, has_fc):
    out = []
    sizes = [(3, 1, 1)] if tier == 'quick' else [(3, 2, 1), (4, 1, 1)]
    for (N, D, I) in sizes:
        for kind in range(3):
            for g in ('contents', 'resolve_dependency', 'try_get'):
                out.append({'N': N, 'D': D, 'I': I, 'kind': kind, 'group': g})
            # two symbolic validations plus the segment construction: one size smaller than the other groups
            # (N=3,D=1,I=1 did not finish in 1500 s per query: the thorough tier widens D at N=2 and drops the import map at N=3 instead)
            vsize = (N - 1, 1, I) if tier == 'quick' else ((2, 2, 1) if N == 3 else (3, 1, 0))
            for fd in (False, True):
                for cj in ([0] if kind == 1 else [0, 1, 2]):
                    out.append({'N': vsize[0], 'D': vsize[1], 'I': vsize[2], 'kind': kind, 'group': 'validate', 'fd': fd, 'cj': cj})
    return out

def cube_name(c): return f"N{c['N']}D{c['D']}I{c['I']}_g{c['kind']}_{c['group']}" + (f"_fd{int(c['fd'])}_cj{c['cj']}" if 'fd' in c else '')

def build(mir, cube):
    N, D, I = cube['N'], cube['D'], cube['I']
    sym = Sym({'graph_kind': cube['kind']})
    w = GraphWorld(mir, sym, N, D, I)
    eng = Engine(mir, usize_bits=8, unroll=N + 2, unroll_by_fn={'segment': 2 * N + 4, 'new': N + 3 * I * w.DI + 2, 'analyze_module_deps': 3 * D + 1, 'resolve': N + 1,
                 mir.find('ModuleGraphErrorIterator', 'next', 'Iterator'): (N + 1) + N * D + 1})
    w.configure(eng)
    eng.cfg['VEC'] = 2 * D + 2
    sel = [sym.bool(f'segroot{i}') for i in range(N)]
    seg = Segment(eng, w, sel)
    post = seg.post
    subset = And(z3.Implies(sel[i], w.rootsel[i]) for i in range(N))
    g = cube['group']
    qs, ops = [], [seg]
    irregular = z3.Not(redirects_regular(w))
    replaced = Or(z3.And(w.is_js(i), w.mods[i]['td']['p'], w.mods[i]['td']['res'][0] == 1) for i in range(N))
    known = [('segment-of-irregular-redirects', irregular),
             ('types-only-segment-drops-module-replaced-by-its-types-dependency', z3.And(w.gkind == 2, replaced))]
    in_seg_module = [z3.And(post.slot_present(i), post.slot_kind(i) == 0) for i in range(N)]
    if g == 'contents':
        # what the segment contains: exactly what a walk from the segment roots reaches (graph's own kind, dynamic imports followed, JS checked)
        opts = WalkOptions(w, sym, 'sw', {'kind': cube['kind'], 'fd': True, 'cj': 0, 'pfc': False})
        orc = WalkOracle(w, opts, sel)
        bad = []
        for i in range(N):
            exp_slot = z3.And(orc.yields[i], z3.Not(orc.is_redirect[i]))
            exp_red = z3.And(orc.yields[i], orc.is_redirect[i])
            bad.append(z3.And(z3.Not(subset), post.slot_present(i) != exp_slot))
            bad.append(z3.And(z3.Not(subset), post.redirects.present[i] != exp_red))
            bad.append(z3.And(post.slot_present(i), z3.Or(post.slot_kind(i) != w.mods[i]['slotkind'], z3.And(post.slot_kind(i) == 0, post.mod_kind(i) != w.mods[i]['modkind']))))
            bad.append(z3.And(post.redirects.present[i], post.redirects.vals[i].id != w.mods[i]['red'][1]))
        qs.append(Query('segment-contains-exactly-what-its-roots-reach', Or(bad), ops=ops, world=w,
                        describe=lambda m: {'expected': [i for i in range(N) if ev(m, orc.yields[i])]}))
        # clone shortcut: only when the segment roots are roots of the original, and then nothing is lost
        same = And([post.slot_present(i) == w.has_slot(i) for i in range(N)] + [post.redirects.present[i] == w.mods[i]['red'][0] for i in range(N)])
        qs.append(Query('subset-roots-give-a-plain-copy', z3.And(subset, z3.Not(same)), ops=ops, world=w))
        rv = post.roots
        qs.append(Query('segment-roots-are-the-requested-roots', z3.And(z3.Not(subset), z3.Not(And(rv.mem[i] == sel[i] for i in range(N)))), ops=ops, world=w))
        qs.append(Query('graph-kind-and-imports-kept', z3.Or(post.kind != cube['kind'], z3.Not(And(post.imports.present[j] == w.imports[j]['p'] for j in range(len(w.imports))))), ops=ops, world=w))
        qs.append(Query('witness-proper-segment', z3.And(z3.Not(subset), Or(in_seg_module), Or(z3.And(w.has_slot(i), z3.Not(post.slot_present(i))) for i in range(N)), Or(post.redirects.present)), expect='sat', kind='witness', ops=ops, world=w))
    elif g == 'resolve_dependency':
        ref = sym.bv('referrer', 8, lt=N); text = sym.bv('text', 8, lt=w.ntext); pt = sym.bool('prefer_types')
        a = ResolveDependency(eng, w, text, ref, pt)
        b = ResolveDependency(eng, w, text, ref, pt, graph_ptr=seg.ptr)
        seg.then = [b]; ops = [seg, a]
        contained = Or(z3.And(ref == i, in_seg_module[i]) for i in range(N))
        qs.append(Query('dependencies-of-contained-modules-resolve-as-in-the-original', z3.And(contained, z3.Or(a.some != b.some, z3.And(a.some, a.result != b.result))), ops=ops, world=w, known=known,
                        describe=lambda m: {'original': a.decode(m), 'segment': b.decode(m)}))
        qs.append(Query('witness-dependency-resolved-in-segment', z3.And(contained, b.some, z3.Not(subset)), expect='sat', kind='witness', ops=ops, world=w))
    elif g == 'try_get':
        # x ranges over the dependency targets (code and type) of the modules contained in the segment
        x = sym.bv('x', 8, lt=N)
        a = Lookup(eng, w, 'try_get', x); b = Lookup(eng, w, 'try_get', x, graph_ptr=seg.ptr)
        seg.then = [b]; ops = [seg, a]
        is_target = []
        for i in range(N):
            for sel_, sm in post.deps_of(i):
                for p, val in zip(sm.present, sm.vals):
                    d = post.dep_fields(val)
                    for fld in ('code', 'type'):
                        kk, tt, _ = post.res_fields(d[fld])
                        is_target.append(z3.And(in_seg_module[i], sel_, p, kk == 1, tt == x))
        # a dependency edge the segment's own walk follows (dynamic ones included; type edges when the kind has types)
        qs.append(Query('lookups-of-dependency-targets-agree-with-the-original', z3.And(Or(is_target), z3.Or(a.is_err != b.is_err, a.some != b.some, z3.And(a.some, a.mod_spec != b.mod_spec), z3.And(a.is_err, a.err_spec != b.err_spec))),
                        ops=ops, world=w, known=known))
        qs.append(Query('witness-error-target-kept', z3.And(Or(is_target), b.is_err, z3.Not(subset)), expect='sat', kind='witness', ops=ops, world=w))
    elif g == 'validate':
        opts = WalkOptions(w, sym, 'vw', {'kind': cube['kind'], 'pfc': False, 'fd': cube['fd'], 'cj': cube['cj']})
        a = Validate(eng, w, opts, sel)
        b = Validate(eng, w, opts, sel, graph_ptr=seg.ptr)
        seg.then = [b]; ops = [seg, a]
        diff = [a.is_err != b.is_err]
        if a.err is not None and b.err is not None:
            diff.append(z3.And(a.is_err, b.is_err, z3.Or(a.err['cat'] != b.err['cat'], a.err['spec'] != b.err['spec'], a.err['rid'] != b.err['rid'])))
        qs.append(Query('validation-from-the-segment-roots-agrees-with-the-original', Or(diff), ops=ops, world=w, known=known))
        qs.append(Query('witness-segment-invalid', z3.And(b.is_err, z3.Not(subset)), expect='sat', kind='witness', ops=ops, world=w))
    for fname in sorted({f for f, _ in eng.exceeded}):
        qs.insert(0, Query('unwinding:' + fname.split('>::')[-1], Or(gd for f, gd in eng.exceeded if f == fname), kind='unwind'))
    qs.insert(0, Query('model-capacity', Or(gd for _, gd in eng.obligations), kind='obligation'))
    qs.insert(0, Query('no-panic', Or(gd for _, gd in eng.panics), ops=ops, world=w))
    return eng, w, sym.cons + w.invariant(), qs

def differential(mir, seed, count):
    from ..differential import graph_differential
    import z3 as _z3
    def extra(eng, w, rng): return [Segment(eng, w, [_z3.BoolVal(rng.random() < 0.5) for _ in range(w.N)])]
    return graph_differential(mir, seed, count, extra_ops=extra)
