"""C17 — pruning types from a full graph gives the code-only graph (decided on arbitrary graph states of kind All).

The real prune_types is executed from MIR; the post-state must report CodeOnly, carry no configured imports, type
resolutions, types dependencies, @deno-types markers or fast-check data, keep exactly the entries and redirects that are
reachable from the roots through redirects and code edges (static and dynamic), leave what it keeps otherwise unchanged, and
give the same code-validation verdict as the pre-state. Equality with a second *build* is outside (needs the builder)."""
import z3
from ..engine import *
from ..models import *
from ..world import GraphWorld, Sym
from ..ops import PruneTypes, Validate, GraphView, ev
from ..oracle import Or, And
from ..harness import Query

ID = 'C17'
DEFAULT_FEATURES = True   # fast-check data is part of the graph state
BUILD_PROBES = True   # evidence: the states behind the recorded findings are produced by the real builder
ASSUMPTIONS = [
    'pre-state: graph kind All (the statement: "built with all dependency kinds"), representation invariant of DESIGN.md section 3',
    'equality with a graph built code-only from the same sources is NOT decided (needs the async builder); the post-state is compared with the code-reachable part of the pre-state',
]

def cubes(tier, has_fc):
    groups = ['shape', 'retained', 'unchanged', 'valid']
    sizes = [(3, 1, 1)] if tier == 'quick' else [(3, 2, 1), (4, 2, 1)]
    out = []
    for (N, D, I) in sizes:
        for g in groups:
            if g == 'valid' and N > 3: continue
            out.append({'N': N, 'D': D, 'I': I, 'group': g})
    return out

def cube_name(c): return f"N{c['N']}D{c['D']}I{c['I']}_{c['group']}"

def code_reach(w):
    """least fixpoint from the roots through redirects (where no entry exists) and the code edges of modules"""
    N = w.N
    def edge(i, j):
        es = [z3.And(z3.Not(w.has_slot(i)), w.mods[i]['red'][0], w.mods[i]['red'][1] == j)]
        for d in w.mods[i]['deps']:
            es.append(z3.And(w.has_deps(i), d['p'], d['code'][0] == 1, d['code'][1] == j))
        return z3.Or(es)
    E = [[edge(i, j) for j in range(N)] for i in range(N)]
    reach = list(w.rootsel)
    for _ in range(N - 1):
        reach = [z3.Or(reach[j], Or(z3.And(reach[i], E[i][j]) for i in range(N) if i != j)) for j in range(N)]
    return reach

def build(mir, cube):
    N, D, I = cube['N'], cube['D'], cube['I']
    sym = Sym({'graph_kind': 0})
    w = GraphWorld(mir, sym, N, D, I)
    eng = Engine(mir, usize_bits=8, unroll=N + 2, unroll_by_fn={'prune_types': 2 * N + N * D + 4, 'new': N + 3 * I * w.DI + 2, 'analyze_module_deps': 3 * D + 1,
                 mir.find('ModuleGraphErrorIterator', 'next', 'Iterator'): (N + 1) + N * D + 1})
    w.configure(eng)
    eng.cfg['VEC'] = 2 * D + 2
    pr = PruneTypes(eng, w)
    post = pr.post
    CR = code_reach(w)
    irregular = Or(z3.And(w.mods[k]['red'][0], w.has_slot(k)) for k in range(N))
    known = [('prune-skips-entry-at-redirect-source', irregular)]
    qs, g = [], cube['group']
    ops = [pr]
    if g == 'shape':
        qs.append(Query('reports-code-only', post.kind != 1, ops=ops, world=w))
        qs.append(Query('no-configured-imports-left', Or(post.imports.present), ops=ops, world=w))
        bad = []
        for i in range(N):
            keep = z3.And(post.slot_present(i), post.slot_kind(i) == 0)
            for sel, sm in post.deps_of(i):
                for p, val in zip(sm.present, sm.vals):
                    d = post.dep_fields(val)
                    bad.append(z3.And(keep, sel, p, z3.Or(d['type'].tag != 0, d['dts'].tag != 0)))
            j = post.js(i)
            if j is not None:
                isjs = z3.And(keep, post.mod_kind(i) == 0)
                bad.append(z3.And(isjs, post.fld(j, 'JsModule', 'maybe_types_dependency').tag != 0))
                if w.has_fc: bad.append(z3.And(isjs, post.fld(j, 'JsModule', 'fast_check').tag != 0))
        qs.append(Query('no-type-data-left-on-retained-modules', Or(bad), ops=ops, world=w, known=known))
        node_kept = Or(z3.And(post.slot_present(i), post.slot_kind(i) == 0, post.mod_kind(i) == 4) for i in range(N))
        qs.append(Query('has_node_specifier-iff-node-module-retained', post.has_node != node_kept, ops=ops, world=w, known=known))
        qs.append(Query('witness-type-data-removed', Or(z3.And(w.is_js(i), CR[i], w.mods[i]['td']['p'], Or(z3.And(d['p'], d['type'][0] == 1) for d in w.mods[i]['deps'])) for i in range(N)), expect='sat', kind='witness', ops=ops, world=w))
    elif g == 'retained':
        bad = []
        for i in range(N):
            bad.append(post.slot_present(i) != z3.And(w.has_slot(i), CR[i]))
            bad.append(post.redirects.present[i] != z3.And(w.mods[i]['red'][0], CR[i]))
        qs.append(Query('keeps-exactly-the-code-reachable-entries-and-redirects', Or(bad), ops=ops, world=w, known=known,
                        describe=lambda m: {'code_reachable': [i for i in range(N) if ev(m, CR[i])]}))
        qs.append(Query('witness-types-only-module-dropped', Or(z3.And(w.is_module(i), z3.Not(CR[i]), Or(z3.And(w.is_js(k), CR[k], d['p'], d['type'][0] == 1, d['type'][1] == i) for k in range(N) for d in w.mods[k]['deps'])) for i in range(N)), expect='sat', kind='witness', ops=ops, world=w))
        qs.append(Query('witness-dynamic-only-module-kept', Or(z3.And(w.is_module(i), CR[i], z3.Not(w.rootsel[i])) for i in range(N)), expect='sat', kind='witness', ops=ops, world=w))
    elif g == 'unchanged':
        bad = []
        for i in range(N):
            keep = post.slot_present(i)
            bad.append(z3.And(keep, post.slot_kind(i) != w.mods[i]['slotkind']))
            bad.append(z3.And(keep, post.slot_kind(i) == 0, post.mod_kind(i) != w.mods[i]['modkind']))
            bad.append(z3.And(post.redirects.present[i], post.redirects.vals[i].id != w.mods[i]['red'][1]))
            for sel, sm in post.deps_of(i):
                for k, (p, val) in enumerate(zip(sm.present, sm.vals)):
                    d = post.dep_fields(val); pre = w.mods[i]['deps'][k]
                    kk, tt, rid = post.res_fields(d['code'])
                    on = z3.And(keep, post.slot_kind(i) == 0, sel)
                    bad.append(z3.And(on, p != pre['p']))
                    bad.append(z3.And(on, p, z3.Or(kk != pre['code'][0], z3.And(kk == 1, tt != pre['code'][1]), d['dyn'] != pre['dyn'])))
            j = post.js(i)
            if j is not None:
                bad.append(z3.And(keep, post.slot_kind(i) == 0, post.mod_kind(i) == 0, post.fld(j, 'JsModule', 'media_type').tag != w.mods[i]['mt']))
        rv = post.roots
        bad.append(z3.Not(And(rv.mem[i] == w.rootsel[i] for i in range(N))))
        qs.append(Query('retained-entries-keep-kind-code-edges-dynamic-flags-and-roots', Or(bad), ops=ops, world=w))
        qs.append(Query('witness-module-with-dynamic-code-edge-kept', Or(z3.And(post.slot_present(i), w.has_deps(i), Or(z3.And(d['p'], d['dyn'], d['code'][0] == 1) for d in w.mods[i]['deps'])) for i in range(N)), expect='sat', kind='witness', ops=ops, world=w))
    elif g == 'valid':
        before = Validate(eng, w, use_valid=True)
        after = Validate(eng, w, use_valid=True, graph_ptr=pr.ptr)
        pr.then = [after]
        ops = [pr, before]
        qs.append(Query('same-code-validation-verdict', before.is_err != after.is_err, ops=ops, world=w, known=known))
        if before.err is not None and after.err is not None:
            qs.append(Query('same-first-validation-error', z3.And(before.is_err, after.is_err, z3.Or(before.err['cat'] != after.err['cat'], before.err['spec'] != after.err['spec'], before.err['rid'] != after.err['rid'])), ops=ops, world=w, known=known))
        qs.append(Query('witness-invalid-before-and-after', z3.And(before.is_err, after.is_err), expect='sat', kind='witness', ops=ops, world=w))
        qs.append(Query('witness-type-failure-and-valid', z3.And(z3.Not(before.is_err), Or(z3.And(w.is_js(i), CR[i], d['p'], d['type'][0] == 2) for i in range(N) for d in w.mods[i]['deps'])), expect='sat', kind='witness', ops=ops, world=w))
    for fname in sorted({f for f, _ in eng.exceeded}):
        qs.insert(0, Query('unwinding:' + fname.split('>::')[-1], Or(gd for f, gd in eng.exceeded if f == fname), kind='unwind'))
    qs.insert(0, Query('model-capacity', Or(gd for _, gd in eng.obligations), kind='obligation'))
    qs.insert(0, Query('no-panic', Or(gd for _, gd in eng.panics), ops=ops, world=w))
    return eng, w, sym.cons + w.invariant(), qs

def differential(mir, seed, count):
    from ..differential import graph_differential
    def extra(eng, w, rng): return [PruneTypes(eng, w)]
    return graph_differential(mir, seed, count, extra_ops=extra)
