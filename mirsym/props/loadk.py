"""C01 kernel: Builder::load_with_redirect_count — one load request against an ARBITRARY builder state.

The graph state is the symbolic GraphWorld (N specifiers: any slot kinds incl. Pending{is_asset} and External{was_asset_load}, any
redirect table); the request is arbitrary (specifier, asset flag, `type` attribute, source-phase referrer, dynamic/root flags,
embedded JSR version info). The loader side is the environment: parse_load_specifier_kind is an arbitrary per-specifier
classification (jsr / npm / node / url / invalid), MediaType::from_specifier an arbitrary per-specifier media type, and the
functions that actually start a load (load_pending_module, load_jsr_specifier, load_npm_specifier, load_jsr_subpath) and the
package-dependency bookkeeping (mark_*_dep) are recording stubs.

Decided (statement: every specifier is loaded into a single entry, redirects are honoured, build options decide what is followed):
 * single entry: a request never starts two loads, never starts a load for a specifier other than the redirect-resolved target, and
   never touches the slot of any other specifier; when the target already has an entry (and is not an asset-only entry that now
   needs its content) nothing is started and nothing is overwritten;
 * settled: when the target has no entry, the request either starts exactly one load for it or leaves an entry (module / error) at it;
 * asset gate: a `type: bytes|text|css` asset import is admitted exactly when the matching unstable_*_imports option is on; a refused
   one becomes an error entry at the target and starts no load;
 * flags and attribute reach the started load unchanged."""
import z3, re
from ..engine import *
from ..models import *
from ..world import Sym, GraphWorld
from ..oracle import Or, And
from ..harness import Query
from ..ops import ev
from .pmsi import EnumStrV, enumstr_eq, ATTR_KINDS

LSK = ['Jsr', 'Npm', 'Node', 'Url', 'Invalid']

def build(mir, cube):
    N = cube.get('N', 3)
    sym = Sym()
    st, en = dict(mir.structs), mir.enums
    MT = en['MediaType']
    w = GraphWorld(mir, sym, N, 0, 0)
    eng = Engine(mir, usize_bits=8, unroll=N + 2)
    w.configure(eng)
    req = sym.bv('request_specifier', 8, lt=N)
    is_asset, in_dyn, is_root = sym.bool('is_asset'), sym.bool('in_dynamic_branch'), sym.bool('is_root')
    has_attr = sym.bool('has_attribute'); attr = sym.bv('attribute_kind', 8, lt=len(ATTR_KINDS))
    has_range, has_spr, has_vi, vi_sub = sym.bool('has_range'), sym.bool('has_source_phase_referrer'), sym.bool('has_version_info'), sym.bool('version_info_covers_target')
    opt_bytes, opt_text, opt_css = sym.bool('unstable_bytes_imports'), sym.bool('unstable_text_imports'), sym.bool('unstable_css_imports')
    passthrough, has_npm = sym.bool('passthrough_jsr_specifiers'), sym.bool('has_npm_resolver')
    kind_of = [sym.bv(f'spec{u}_load_kind', 8, lt=len(LSK)) for u in range(N)]
    mt_of = [sym.bv(f'spec{u}_inferred_media_type', 8, lt=len(MT)) for u in range(N)]
    rc = sym.bv('redirect_count', 8)
    def sel(tab, u):
        r = tab[-1]
        for i in range(len(tab) - 2, -1, -1): r = IF(EQ(u, BV(i, 8)), tab[i], r)
        return r
    rng = Agg([{'specifier': UrlV(BV(0, 8))}.get(f, O) for f in st['Range']])
    attr_v = Agg([{'range': rng, 'kind': EnumStrV(attr, ATTR_KINDS)}[f] for f in st['AttributeTypeWithRange']])
    options = Agg([{'specifier': url_ref(req), 'maybe_range': opt(has_range, ref_to(rng, 'range')), 'maybe_source_phase_referrer': opt(has_spr, ref_to(rng, 'spr')),
                    'is_asset': is_asset, 'in_dynamic_branch': in_dyn, 'is_root': is_root, 'maybe_attribute_type': opt(has_attr, attr_v),
                    'maybe_version_info': opt(has_vi, ref_to(Opaque('version info'), 'vi'))}[f] for f in st['LoadOptionsRef']])
    calls = []      # (guard, what, specifier id, detail)
    marks = []
    def rec(what, spec_arg, detail=None):
        def f(e, c, a, g):
            calls.append((g, what, uid(e, a[spec_arg]), detail(e, a) if detail else None)); return UNIT
        f.__name__ = 'stub_' + what; return f
    def pending_detail(e, a):
        it = a[1]; F = st['PendingModuleLoadItem']
        return {k: it.f[F.index(k)] for k in ('is_asset', 'in_dynamic_branch', 'is_root', 'maybe_attribute_type', 'redirect_count', 'load_specifier')}
    def stub_pending(e, c, a, g):
        it = a[1]; F = st['PendingModuleLoadItem']
        calls.append((g, 'load_pending_module', uid(e, it.f[F.index('requested_specifier')]), pending_detail(e, a))); return UNIT
    def stub_kind(e, c, a, g):
        k = sel(kind_of, uid(e, a[1]))
        err = Agg([BoxV(EnumV(BV(en['ModuleErrorKind'].index('Load'), 8), {en['ModuleErrorKind'].index('Load'): Agg([a[1] if not isinstance(a[1], Ptr) else e.load(a[1]), none(), O])}))])
        L = en['LoadSpecifierKind']
        ok = EnumV(k, {L.index('Jsr'): Agg([Opaque('jsr ref')]), L.index('Npm'): Agg([Opaque('npm ref')]), L.index('Node'): Agg([SymStr('node module name')]), L.index('Url'): Agg([])})
        return EnumV(IF(EQ(k, BV(LSK.index('Invalid'), 8)), BV(1, 8), BV(0, 8)), {0: Agg([ok]), 1: Agg([err])})
    def stub_mark(what):
        def f(e, c, a, g): marks.append((g, what)); return UNIT
        f.__name__ = 'stub_' + what; return f
    deferred = []
    def stub_entry(e, c, a, g): return Agg([a[0], a[1]])
    def stub_or_insert_with(e, c, a, g):
        deferred.append((g, uid(e, a[0].f[1]))); return ref_to(Opaque('deferred load'), 'deferred')
    eng.cfg['stubs'] = [
        (re.compile(r'Builder::<.*>::parse_load_specifier_kind'), stub_kind),
        (re.compile(r'MediaType::from_specifier'), lambda e, c, a, g: EnumV(sel(mt_of, uid(e, a[0])), {})),
        (re.compile(r'Builder::<.*>::load_pending_module'), stub_pending),
        (re.compile(r'Builder::<.*>::load_jsr_specifier'), rec('load_jsr_specifier', 1, lambda e, a: {'is_asset': a[5], 'in_dynamic_branch': a[6], 'is_root': a[7], 'maybe_attribute_type': a[3]})),
        (re.compile(r'Builder::<.*>::load_npm_specifier'), rec('load_npm_specifier', 2, lambda e, a: {'in_dynamic_branch': a[5]})),
        (re.compile(r'Builder::<.*>::load_jsr_subpath'), rec('load_jsr_subpath', 2, lambda e, a: {'options': a[5], 'redirect_count': a[1]})),
        (re.compile(r'Builder::<.*>::mark_jsr_dep'), stub_mark('jsr')), (re.compile(r'Builder::<.*>::mark_npm_dep'), stub_mark('npm')),
        (re.compile(r'JsrPackageVersionInfoExt::get_subpath'), lambda e, c, a, g: opt(vi_sub, ref_to(SymStr('sub path'), 'sub'))),
        (re.compile(r'HashMap::<Url, DeferredLoad>::entry'), stub_entry),
        (re.compile(r'.*Entry::<.*Url, DeferredLoad>::or_insert_with::<.*'), stub_or_insert_with),
        (re.compile(r'<str as PartialEq>::(eq|ne)|<&str as PartialEq>::(eq|ne)|<String as PartialEq<&str>>::(eq|ne)|<String as PartialEq<str>>::(eq|ne)'), enumstr_eq),
    ]
    state = Agg([{'deferred': Opaque('deferred map')}.get(f, O) for f in st['PendingState']])
    builder = Agg([{'graph': w.ptr, 'state': state, 'unstable_bytes_imports': opt_bytes, 'unstable_text_imports': opt_text, 'unstable_css_imports': opt_css,
                    'passthrough_jsr_specifiers': passthrough, 'npm_resolver': opt(has_npm, Opaque('npm resolver')), 'in_dynamic_branch': in_dyn}.get(f, O) for f in st['Builder']])
    broot = Root(builder, 'builder')
    pre_present = list(w.slot_map.present); pre_vals = list(w.slot_map.vals)
    eng.call(mir.find('Builder', 'load_with_redirect_count'), [Ptr([(TRUE, (broot, ()))]), rc, options], TRUE)
    post = w.root.val.f[st['ModuleGraph'].index('module_slots')]
    return dict(eng=eng, sym=sym, w=w, mir=mir, N=N, req=req, is_asset=is_asset, in_dyn=in_dyn, is_root=is_root, has_attr=has_attr, attr=attr, has_range=has_range,
                has_spr=has_spr, has_vi=has_vi, vi_sub=vi_sub, opt_bytes=opt_bytes, opt_text=opt_text, opt_css=opt_css, passthrough=passthrough, has_npm=has_npm,
                kind_of=kind_of, mt_of=mt_of, rc=rc, calls=calls, marks=marks, deferred=deferred, post=post, pre_present=pre_present, pre_vals=pre_vals, sel=sel, MT=MT)

def queries(k):
    eng, w, mir, N, sel = k['eng'], k['w'], k['mir'], k['N'], k['sel']
    st, en = mir.structs, mir.enums
    MT = k['MT']; MEK = en['ModuleErrorKind']
    req = k['req']
    t = sel([z3.If(w.mods[u]['red'][0], w.mods[u]['red'][1], z3.BitVecVal(u, 8)) for u in range(N)], req)
    T = lambda tab: sel(list(tab), t)
    calls, post = k['calls'], k['post']
    P = k['pre_present']
    slotkind = [w.mods[u]['slotkind'] for u in range(N)]
    was_ext_asset = [z3.And(P[u], slotkind[u] == 0, w.mods[u]['modkind'] == 5, w.mods[u]['asset']) for u in range(N)]
    pending_asset = [z3.And(P[u], slotkind[u] == 2, w.mods[u]['passet']) for u in range(N)]
    is_asset, has_attr, attr = k['is_asset'], k['has_attr'], k['attr']
    A = lambda name: attr == ATTR_KINDS.index(name)
    spr_block = z3.And(is_asset, k['has_spr'], z3.Not(z3.And(T(k['mt_of']) == MT.index('Wasm'), z3.Not(has_attr))))
    allowed = z3.Or(z3.And(A('bytes'), k['opt_bytes']), z3.And(A('text'), k['opt_text']), z3.And(A('css'), k['opt_css']))
    refused = z3.And(is_asset, z3.Not(spr_block), has_attr, z3.Not(allowed))
    gate_fail = z3.Or(spr_block, refused)
    existing = T(P); reload_now = z3.And(T(was_ext_asset), z3.Not(is_asset))
    any_call = Or(g for g, *_ in calls)
    two_calls = Or(z3.And(calls[i][0], calls[j][0]) for i in range(len(calls)) for j in range(i + 1, len(calls)))
    # structural signature of a slot: (present, slot kind, module kind / error kind / pending flag)
    def sig(present, v):
        mod = v.vars[0].f[0] if 0 in v.vars and v.vars[0].f and isinstance(v.vars[0].f[0], EnumV) else None
        errk = None
        if 1 in v.vars and v.vars[1].f:
            e = v.vars[1].f[0]
            while isinstance(e, (Agg, BoxV)) and not isinstance(e, EnumV): e = e.val if isinstance(e, BoxV) else e.f[0]
            errk = e.tag if isinstance(e, EnumV) else None
        pend = v.vars[2].f[0] if 2 in v.vars and v.vars[2].f and z3.is_bool(v.vars[2].f[0]) else None
        extasset = None
        if mod is not None and 5 in mod.vars and mod.vars[5].f:
            extasset = mod.vars[5].f[0].f[st['ExternalModule'].index('was_asset_load')]
        return dict(present=present, kind=v.tag, mod=mod.tag if mod is not None else None, errk=errk, pend=pend, extasset=extasset)
    pre_sig = [sig(P[u], k['pre_vals'][u]) for u in range(N)]
    post_sig = [sig(post.present[u], post.vals[u]) for u in range(N)]
    def same(a, b):
        cs = [a['present'] == b['present']]
        inner = [a['kind'] == b['kind']]
        for f, guardkind in (('mod', 0), ('errk', 1), ('pend', 2)):
            if a[f] is not None and b[f] is not None: inner.append(z3.Implies(a['kind'] == guardkind, a[f] == b[f]))
            elif (a[f] is None) != (b[f] is None): inner.append(a['kind'] != guardkind) if a[f] is None else inner.append(b['kind'] != guardkind)
        if a['extasset'] is not None and b['extasset'] is not None: inner.append(z3.Implies(z3.And(a['kind'] == 0, a['mod'] == 5), a['extasset'] == b['extasset']))
        cs.append(z3.Implies(a['present'], z3.And(inner)))
        return z3.And(cs)
    unchanged = [same(pre_sig[u], post_sig[u]) for u in range(N)]
    def post_t(f, default=None):
        vals = [post_sig[u][f] for u in range(N)]
        if any(v is None for v in vals): vals = [v if v is not None else default for v in vals]
        return sel(vals, t)
    post_present_t = sel([post_sig[u]['present'] for u in range(N)], t)
    post_kind_t = sel([post_sig[u]['kind'] for u in range(N)], t)
    post_errk_t = post_t('errk', z3.BitVecVal(255, 8)); post_mod_t = post_t('mod', z3.BitVecVal(255, 8))
    post_extasset_t = post_t('extasset', z3.BoolVal(False))
    is_err_t = lambda name: z3.And(post_present_t, post_kind_t == 1, post_errk_t == MEK.index(name))
    LK = T(k['kind_of'])

    class World:
        has_fc = True
        def to_json(self, m):
            return {'fill_deps': True, 'load_request': True, 'load_kind': LSK[ev(m, LK)], 'attribute': ATTR_KINDS[ev(m, attr)] if ev(m, has_attr) else None,
                    'in_dynamic_branch': ev(m, k['in_dyn']), 'unstable_bytes_imports': ev(m, k['opt_bytes']), 'unstable_text_imports': ev(m, k['opt_text']),
                    'unstable_css_imports': ev(m, k['opt_css']), 'passthrough_jsr_specifiers': ev(m, k['passthrough'])}
    class Op:
        def op_json(self, m): return {'op': 'build'}
        def decode(self, m):
            if ev(m, post_present_t):
                kd = ev(m, post_kind_t)
                if kd == 1: return {'target': 'err:' + MEK[ev(m, post_errk_t)]}
                if kd == 0:
                    mk = ev(m, post_mod_t)
                    return {'target': 'node' if mk == 4 else ('asset' if ev(m, post_extasset_t) else 'external') if mk == 5 else 'module'}
            for g, what, sp, d in calls:
                if ev(m, g) and what == 'load_pending_module': return {'target': 'asset' if ev(m, d['is_asset']) else 'module'}
            return {'target': 'absent'}
    # natively rebuildable: the first request for X from a freshly loaded root (no entry / redirect for X yet), plain import, ordinary kinds
    real = [z3.Not(sel(list(P), req)), z3.Not(sel([w.mods[u]['red'][0] for u in range(N)], req)), k['has_range'], z3.Not(k['has_spr']), z3.Not(k['has_vi']), z3.Not(k['is_root']),
            k['rc'] == 0, z3.Or(LK == LSK.index('Url'), LK == LSK.index('Node'), z3.And(LK == LSK.index('Jsr'), k['passthrough'])), z3.Not(k['has_npm']),
            is_asset == z3.And(has_attr, z3.Or(A('bytes'), A('text'), A('css'))), z3.Implies(z3.Not(is_asset), z3.Not(has_attr)), z3.Implies(has_attr, LK == LSK.index('Url')),
            z3.Implies(has_attr, attr != len(ATTR_KINDS) - 1)]
    kw = dict(ops=[Op()], world=World(), realizable=real)
    qs = [Query('no-panic', Or(g for _, g in eng.panics)), Query('model-capacity', Or(g for _, g in eng.obligations), kind='obligation')]
    for fname in sorted({f for f, _ in eng.exceeded}): qs.append(Query('unwinding:' + fname.split('>::')[-1], Or(g for f, g in eng.exceeded if f == fname), kind='unwind'))
    qs.append(Query('a-request-starts-at-most-one-load', two_calls, **kw))
    qs.append(Query('a-load-is-only-started-for-the-redirect-resolved-target', Or(z3.And(g, sp != t) for g, what, sp, d in calls), **kw))
    qs.append(Query('entries-of-other-specifiers-are-untouched', Or(z3.And(t != u, z3.Not(unchanged[u])) for u in range(N)), **kw))
    qs.append(Query('an-existing-entry-is-neither-reloaded-nor-overwritten', z3.And(existing, z3.Not(reload_now), z3.Not(gate_fail), z3.Or(any_call, z3.Not(T(unchanged)))), **kw))
    qs.append(Query('a-new-target-is-settled-or-being-loaded', z3.And(z3.Not(existing), z3.Not(z3.Or(post_present_t, any_call))), **kw))
    qs.append(Query('an-asset-only-entry-is-reloaded-when-its-content-is-needed', z3.And(reload_now, z3.Not(gate_fail), z3.Not(z3.Or(any_call, z3.And(post_present_t, z3.Not(T(unchanged)))))), **kw))
    gate_pre = z3.And(z3.Not(existing), is_asset, z3.Not(spr_block), has_attr)
    qs.append(Query('asset-import-is-admitted-exactly-when-its-option-is-on',
                    z3.And(gate_pre, z3.Or(z3.And(allowed, is_err_t('UnsupportedImportAttributeType')),
                                           z3.And(z3.Not(allowed), z3.Or(any_call, z3.Not(is_err_t('UnsupportedImportAttributeType')))))), **kw))
    bad_flags = []
    for g, what, sp, d in calls:
        if what == 'load_pending_module':
            at = d['maybe_attribute_type']; ap = opt_payload(at)
            same_attr = z3.And(opt_is_some(at) == has_attr, z3.Implies(has_attr, ap.f[st['AttributeTypeWithRange'].index('kind')].code == attr) if ap is not None else z3.Not(has_attr))
            bad_flags.append(z3.And(g, z3.Or(d['is_asset'] != is_asset, d['in_dynamic_branch'] != k['in_dyn'], d['is_root'] != k['is_root'], d['redirect_count'] != k['rc'],
                                             uid(eng, d['load_specifier']) != t, z3.Not(same_attr))))
        elif what == 'load_jsr_specifier':
            bad_flags.append(z3.And(g, z3.Or(d['is_asset'] != is_asset, d['in_dynamic_branch'] != k['in_dyn'], d['is_root'] != k['is_root'], opt_is_some(d['maybe_attribute_type']) != has_attr)))
        elif what == 'load_npm_specifier':
            bad_flags.append(z3.And(g, d['in_dynamic_branch'] != k['in_dyn']))
    qs.append(Query('flags-and-attribute-reach-the-started-load-unchanged', Or(bad_flags), **kw))
    fresh = z3.And(z3.Not(existing), z3.Not(gate_fail), z3.Not(z3.And(k['has_vi'], k['vi_sub'])))
    qs.append(Query('node-and-passthrough-jsr-specifiers-become-entries-without-a-load',
                    z3.And(fresh, z3.Or(z3.And(LK == LSK.index('Node'), z3.Or(any_call, z3.Not(z3.And(post_present_t, post_kind_t == 0, post_mod_t == 4)))),
                                        z3.And(LK == LSK.index('Jsr'), k['passthrough'], z3.Or(any_call, z3.Not(z3.And(post_present_t, post_kind_t == 0, post_mod_t == 5, z3.Not(post_extasset_t))))))), **kw))
    qs.append(Query('url-specifiers-are-handed-to-the-loader', z3.And(fresh, LK == LSK.index('Url'), z3.Not(Or(g for g, what, sp, d in calls if what == 'load_pending_module'))), **kw))
    qs.append(Query('witness-asset-admitted', z3.And(gate_pre, allowed, any_call), expect='sat', kind='witness', **kw))
    qs.append(Query('witness-asset-refused', z3.And(gate_pre, z3.Not(allowed)), expect='sat', kind='witness', **kw))
    qs.append(Query('witness-existing-entry', z3.And(existing, z3.Not(reload_now), z3.Not(gate_fail)), expect='sat', kind='witness'))
    qs.append(Query('witness-node', z3.And(fresh, LK == LSK.index('Node')), expect='sat', kind='witness', **kw))
    qs.append(Query('witness-redirected-request', z3.And(t != req, any_call), expect='sat', kind='witness'))
    base = list(k['sym'].cons) + w.invariant()
    return eng, World(), base, qs
