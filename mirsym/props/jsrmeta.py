"""Kernel: JsrMetadataStore::queue_load_package_version_info + load_data (src/jsr.rs) — the load of a registry version manifest.

The sync part (which checksum is presented, whether a lockfile checksum will be produced) runs from MIR; the async block that
load_data spawns is taken from the `spawn` call (rt::spawn and shared_local are identity stubs: they only move the future onto the
executor) and polled once with the loader future as a ready environment answer; the three closures (content handler, load-error
mapper, not-found error) run from their own MIR. serde_json::from_slice is environment (ok / error, any lockfileChecksum field).

C05 reading: the manifest load presents exactly the lockfile's manifest checksum when one is recorded; a checksum for the lockfile is
produced exactly when a locker is present and holds no entry (so an existing entry is never overwritten), and it is the manifest's
own lockfileChecksum when it has one, else the digest of exactly the bytes loaded.
C03 reading: every loader outcome maps to a definite result: module -> info (or PackageVersionManifestLoad when it does not parse),
checksum error -> PackageVersionManifestChecksumIntegrity, other error -> PackageVersionManifestLoad, redirect -> RedirectInPackage,
not found / external -> PackageVersionNotFound; nothing is queued twice for one package version."""
import z3, re
from ..engine import *
from ..models import *
from ..world import Sym
from ..oracle import Or, And
from ..harness import Query
from ..ops import ev

RESP = ['Module', 'Redirect', 'External', 'NotFound', 'ChecksumError', 'OtherError']

def build(mir, cube):
    sym = Sym()
    st, en = dict(mir.structs), mir.enums
    eng = Engine(mir, usize_bits=8, unroll=4)
    eng.cfg['N'] = 3; eng.cfg['scheme'] = [BV(0, 8)] * 3
    has_locker, locker_has, queued_before = sym.bool('has_locker'), sym.bool('lockfile_has_manifest_checksum'), sym.bool('already_queued')
    r0 = sym.bv('loader_answer', 8, lt=len(RESP)); parse_ok, own_ck = sym.bool('manifest_parses'), sym.bool('manifest_has_lockfile_checksum')
    cache_setting = sym.bv('cache_setting', 8, lt=3)
    CK_LOCK, CONTENT, OWN = 3, 10, 20
    LR, LE, JLE = en['LoadResponse'], en['LoadError'], en['JsrLoadError']
    loads, inserts, spawned = [], [], []
    def stub_load(e, c, a, g):
        o = a[2]; F = st['LoadOptions']; ck = o.f[F.index('maybe_checksum')]; p = opt_payload(ck)
        loads.append((g, uid(e, a[1]), o.f[F.index('cache_setting')].tag, opt_is_some(ck), p.f[0] if isinstance(p, Agg) else p, o.f[F.index('in_dynamic_branch')], o.f[F.index('was_dynamic_root')]))
        return Opaque('manifest load future')
    def ready(v): return EnumV(BV(0, 8), {0: Agg([v])})
    def stub_poll(e, c, a, g):
        module = Agg([Agg([BV(CONTENT, 8)]), none(), UrlV(BV(1, 8)), none()])
        tag = IF(EQ(r0, BV(0, 8)), BV(LR.index('Module'), 8), IF(EQ(r0, BV(1, 8)), BV(LR.index('Redirect'), 8), BV(LR.index('External'), 8)))
        lresp = EnumV(tag, {LR.index('Module'): module, LR.index('Redirect'): Agg([UrlV(BV(2, 8))]), LR.index('External'): Agg([UrlV(BV(1, 8))])})
        okv = EnumV(IF(EQ(r0, BV(3, 8)), BV(0, 8), BV(1, 8)), {0: Agg([]), 1: Agg([lresp])})
        errv = EnumV(IF(EQ(r0, BV(4, 8)), BV(LE.index('ChecksumIntegrity'), 8), BV(LE.index('Other'), 8)), {LE.index('ChecksumIntegrity'): Agg([Opaque('integrity error')]), LE.index('Other'): Agg([Opaque('loader error')])})
        return ready(EnumV(IF(ULE(BV(4, 8), r0), BV(1, 8), BV(0, 8)), {0: Agg([okv]), 1: Agg([errv])}))
    def stub_from_slice(e, c, a, g):
        F = st['JsrPackageVersionInfo']
        info = Agg([{'lockfile_checksum': opt(own_ck, Agg([BV(OWN, 8)]))}.get(f, O) for f in F])
        return EnumV(IF(parse_ok, BV(0, 8), BV(1, 8)), {0: Agg([info]), 1: Agg([Opaque('json error')])})
    def stub_gen(e, c, a, g):
        v = a[0]
        while isinstance(v, Ptr): v = e.load(v)
        while isinstance(v, Agg) and not z3.is_bv(v.f[0]): v = v.f[0]
        return Agg([v.f[0] + 100])
    ident = lambda e, c, a, g: a[0]
    def stub_new_ck(e, c, a, g):
        v = a[0]
        while isinstance(v, Agg) and not z3.is_bv(v.f[0]): v = v.f[0]
        return Agg([v.f[0]])
    def bool_then(e, c, a, g):
        v = e.call_closure(a[1], [], AND(g, a[0]))
        return opt(a[0], v)
    eng.cfg['stubs'] = [
        (re.compile(r'<dyn .*Loader as .*Loader>::load'), stub_load),
        (re.compile(r'<Pin<Box<dyn .*Future<Output = Result<Option<LoadResponse>, LoadError>>>> as .*Future>::poll'), stub_poll),
        (re.compile(r'<.* as .*IntoFuture>::into_future'), ident), (re.compile(r'Pin::<&mut .*>::new_unchecked'), lambda e, c, a, g: Agg([a[0]])),
        (re.compile(r'<\{async block@.*\} as FutureExt>::boxed_local.*'), ident),
        (re.compile(r'(rt::)?spawn::<.*'), lambda e, c, a, g: (spawned.append((g, a[1])), a[1])[1]),
        (re.compile(r'<.*JoinHandle<.*> as LocalFutureExt>::shared_local'), ident),
        (re.compile(r'<dyn .*Locker as .*Locker>::get_pkg_manifest_checksum'), lambda e, c, a, g: opt(locker_has, Agg([BV(CK_LOCK, 8)]))),
        (re.compile(r'<dyn .*JsrUrlProvider as .*JsrUrlProvider>::url'), lambda e, c, a, g: url_ref(BV(0, 8))),
        (re.compile(r'Url::join'), lambda e, c, a, g: EnumV(BV(0, 8), {0: Agg([UrlV(BV(1, 8))]), 1: Agg([Opaque('parse error')])})),
        (re.compile(r'format|must_use::<.*>|.*fmt::Arguments::<.*>::new.*|.*fmt::rt::Argument::<.*>::new_display::<.*>'), lambda e, c, a, g: Opaque('text')),
        (re.compile(r'<String as Deref>::deref'), ident),
        (re.compile(r'RefCell::<.*>::borrow_mut'), ident), (re.compile(r'<RefMut<.*> as Deref(Mut)?>::deref(_mut)?'), ident),
        (re.compile(r'HashMap::<PackageNv, .*>::contains_key::<.*>'), lambda e, c, a, g: queued_before),
        (re.compile(r'HashMap::<PackageNv, .*>::insert'), lambda e, c, a, g: (inserts.append((g, a[2])), none())[1]),
        (re.compile(r'(serde_json::)?from_slice::<.*>'), stub_from_slice),
        (re.compile(r'.*LoaderChecksum::r#gen|.*LoaderChecksum::gen'), stub_gen), (re.compile(r'.*LoaderChecksum::new'), stub_new_ck),
        (re.compile(r'bool::then::<.*>'), bool_then),
        (re.compile(r'<PackageNv as Clone>::clone|<Option<String> as Clone>::clone'), lambda e, c, a, g: e.load(a[0]) if isinstance(a[0], Ptr) else a[0]),
        (re.compile(r'Arc::<.*>::new|Box::<PackageNv>::new|<Arc<\[u8\]> as Deref>::deref'), ident),
    ]
    services = Agg([{'loader': Opaque('loader'), 'executor': Opaque('executor'), 'jsr_url_provider': Opaque('jsr url provider')}.get(f, O) for f in st['JsrMetadataStoreServices']])
    store = Root(Agg([{'pending_package_version_info_loads': Opaque('version loads')}.get(f, O) for f in st['JsrMetadataStore']]), 'store')
    name = next(n for n in mir.fn_text if n.startswith('jsr::') and n.endswith('>::queue_load_package_version_info'))
    eng.call(name, [Ptr([(TRUE, (store, ()))]), ref_to(Opaque('package nv'), 'nv'), EnumV(cache_setting, {}), opt(has_locker, ref_to(Opaque('locker'), 'locker')), services], TRUE)
    if len(spawned) != 1 or not isinstance(spawned[0][1], CoroV): raise Unsupported(f'load_data spawned {[(type(v).__name__) for g, v in spawned]}')
    sg, fut = spawned[0]
    span = re.match(r'\{coroutine@(.*?) \(#\d+\)\}', fut.span).group(1)
    poll = eng.dispatch('<{async block@' + span + '} as Future>::poll', [Agg([ref_to(fut, 'manifest-load')]), Opaque('task context')], sg, None)
    ready_ = poll.is_variant(0); res = poll.vars[0].f[0]
    is_ok, is_err = AND(ready_, res.is_variant(0)), AND(ready_, res.is_variant(1))
    item = res.vars[0].f[0] if 0 in res.vars and res.vars[0].f else None
    errv = res.vars[1].f[0] if 1 in res.vars and res.vars[1].f else None
    F = st['PendingJsrPackageVersionInfoLoadItem']
    ckl = item.f[F.index('checksum_for_locker')] if isinstance(item, Agg) else None
    ckl_tok = None
    if isinstance(ckl, EnumV):
        p = opt_payload(ckl)
        while isinstance(p, Agg) and not z3.is_bv(p.f[0]): p = p.f[0]
        ckl_tok = p.f[0] if isinstance(p, Agg) else None
    A = lambda n: r0 == RESP.index(n)
    ran = z3.Not(queued_before)
    err_is = lambda n: z3.And(is_err, errv.tag == JLE.index(n)) if isinstance(errv, EnumV) else z3.BoolVal(False)
    qs = [Query('no-panic', Or(g for _, g in eng.panics)), Query('first-poll-completes', z3.And(ran, z3.Not(ready_)))]
    for fname_ in sorted({f for f, _ in eng.exceeded}): qs.append(Query('unwinding:' + fname_.split('>::')[-1], Or(g for f, g in eng.exceeded if f == fname_), kind='unwind'))
    qs += [Query('a-version-manifest-is-queued-once-per-package-version', z3.Or(Or(g for g, *_ in loads) != ran, Or(g for g, _ in inserts) != ran, z3.BoolVal(len(loads) != 1 or len(inserts) != 1))),
           Query('the-manifest-load-presents-exactly-the-lockfile-checksum', Or(z3.And(l[0], z3.Or(l[3] != z3.And(has_locker, locker_has), z3.And(l[3], l[4] != CK_LOCK), l[2] != cache_setting, l[5], l[6])) for l in loads))]
    if cube.get('c03'):
        qs += [Query('every-loader-outcome-maps-to-a-definite-result', z3.And(ran, z3.Not(z3.Or(is_ok, is_err)))),
               Query('a-delivered-manifest-that-parses-is-the-result', z3.And(ran, A('Module'), parse_ok, z3.Not(is_ok))),
               Query('a-manifest-that-does-not-parse-is-a-manifest-load-error', z3.And(ran, A('Module'), z3.Not(parse_ok), z3.Not(err_is('PackageVersionManifestLoad')))),
               Query('a-checksum-error-is-reported-as-manifest-integrity-error', z3.And(ran, A('ChecksumError'), z3.Not(err_is('PackageVersionManifestChecksumIntegrity')))),
               Query('another-loader-error-is-a-manifest-load-error', z3.And(ran, A('OtherError'), z3.Not(err_is('PackageVersionManifestLoad')))),
               Query('a-redirect-is-rejected', z3.And(ran, A('Redirect'), z3.Not(err_is('RedirectInPackage')))),
               Query('not-found-or-external-is-version-not-found', z3.And(ran, z3.Or(A('NotFound'), A('External')), z3.Not(err_is('PackageVersionNotFound')))),
               Query('witness-integrity-error', z3.And(ran, err_is('PackageVersionManifestChecksumIntegrity')), expect='sat', kind='witness')]
    else:
        must = z3.And(has_locker, z3.Not(locker_has))
        produced = ckl.is_variant(1) if isinstance(ckl, EnumV) else z3.BoolVal(False)
        exp_tok = z3.If(own_ck, z3.BitVecVal(OWN, 8), z3.BitVecVal(CONTENT + 100, 8))
        class W:
            has_fc = True
            def to_json(self, m): return {'positions': True}
        class Op:
            # replayed through a real build importing an https URL into the registry (version manifest served, optionally with its own lockfileChecksum)
            def op_json(self, m): return {'op': 'manifest_lock', 'lockfile_has_manifest_checksum': ev(m, locker_has), 'manifest_has_lockfile_checksum': ev(m, own_ck)}
            def decode(self, m):
                w_ = ev(m, z3.And(is_ok, produced))
                return {'written': w_, 'value': (('own' if ev(m, ckl_tok) == OWN else 'digest' if ev(m, ckl_tok) == CONTENT + 100 else 'other') if w_ and ckl_tok is not None else None)}
        real = [ran, has_locker, A('Module'), parse_ok]
        kw = dict(ops=[Op()], world=W(), realizable=real)
        qs += [Query('a-lockfile-checksum-is-produced-exactly-when-a-locker-holds-no-entry', z3.And(ran, is_ok, produced != must), **kw),
               Query('it-is-the-manifests-own-lockfile-checksum-or-the-digest-of-the-loaded-bytes', z3.And(ran, is_ok, produced, (ckl_tok != exp_tok) if ckl_tok is not None else z3.BoolVal(True)), **kw),
               Query('witness-digest-of-loaded-bytes', z3.And(ran, is_ok, produced, z3.Not(own_ck)), expect='sat', kind='witness', **kw),
               Query('witness-own-lockfile-checksum', z3.And(ran, is_ok, produced, own_ck), expect='sat', kind='witness', **kw)]
        return eng, W(), list(sym.cons), qs
    return eng, None, list(sym.cons), qs
