"""C20 (partial) — module text and original bytes are faithful to what the loader supplied.

deno_graph's own obligations (the decoder itself is the deno_media_type / encoding_rs dependency):
 * Kani on the real crate: ModuleTextSource::try_get_original_bytes returns nothing or exactly the loader's bytes for every
   stored text and every decoded-kind marker under the decoder's contract (Unchanged: text is the bytes; OnlyUtf8Bom: bytes =
   EF BB BF ++ text; Changed: nothing may be returned), including the unsafe Arc<str> -> Arc<[u8]> reinterpretation.
 * mirsym: JsModule::size / JsonModule::size report exactly the byte length of the stored text for every decoded kind, and
   new_source_with_text hands the decoder the header charset when one is given and the detected charset otherwise, and stores
   exactly the decoder's text and kind (or a Decode error)."""
import z3, os, time, re
from ..engine import *
from ..models import *
from ..world import Sym
from ..oracle import Or, And
from ..harness import Query

ID = 'C20'
ASSUMPTIONS = [
    'the decoder (deno_media_type::encoding::decode_arc_source_detail, encoding_rs) is a dependency: its contract on the decoded-kind marker is assumed, not verified',
    'which charset labels the decoder supports is environment (arbitrary); an unsupported label makes the decoder fail (its contract)',
    'Kani harnesses range over ARBITRARY text bytes (a superset of valid UTF-8) of bounded length; charset detection and header parsing are string code outside this check',
]
KANI_QUICK = ['unchanged_returns_exactly_the_loader_bytes', 'changed_returns_nothing', 'only_utf8_bom_len0', 'only_utf8_bom_len1', 'only_utf8_bom_len2', 'only_utf8_bom_len3']
KANI_THOROUGH = KANI_QUICK + ['only_utf8_bom_len4', 'only_utf8_bom_len5', 'only_utf8_bom_len6', 'unchanged_len8']

def cubes(tier, has_fc):
    return [{'part': 'size'}, {'part': 'charset'}, {'part': 'parse-forwarding'}, {'part': 'jsr-content-load'}, {'part': 'jsr-cached-probe'}, {'part': 'kani', 'engine': 'kani', 'harnesses': KANI_QUICK if tier == 'quick' else KANI_THOROUGH}]
def cube_name(c): return c['part']

def build(mir, cube):
    from ..ops import ev
    if cube['part'] == 'jsr-cached-probe':
        from . import c05
        return c05.build(mir, {'asset': False, 'from': 'jsr', 'info': True})
    if cube['part'] == 'jsr-content-load':
        from . import contentload
        return contentload.build(mir, cube)
    if cube['part'] == 'parse-forwarding':
        from . import pmsi
        return pmsi.queries(pmsi.build(mir, cube), 'forwarding')
    sym = Sym()
    eng = Engine(mir, usize_bits=64, unroll=4)
    eng.cfg['N'] = 1
    st = mir.structs
    qs = []
    if cube['part'] == 'size':
        ln = sym.bv('text_len', 64); kind = sym.bv('decoded_kind', 8, lt=3)
        src = Agg([{'text': TextLenV(ln), 'decoded_kind': EnumV(kind, {})}[f] for f in st['ModuleTextSource']])
        js = Agg([{'source': src}.get(f, O) for f in st['JsModule']])
        json_ = Agg([{'source': src}.get(f, O) for f in st['JsonModule']])
        a = eng.call(mir.find('JsModule', 'size'), [ref_to(js, 'js')], TRUE)
        b = eng.call(mir.find('JsonModule', 'size'), [ref_to(json_, 'json')], TRUE)
        class W:
            def to_json(self, m): return {'positions': True}
        class OpSize:
            def op_json(self, m): return {'op': 'module_size', 'len': ev(m, ln), 'kind': ev(m, kind)}
            def decode(self, m): return {'js': ev(m, a), 'json': ev(m, b)}
        real = [z3.ULE(ln, 64)]
        qs.append(Query('js-module-size-is-the-byte-length-of-the-stored-text', a != ln, ops=[OpSize()], world=W(), realizable=real))
        qs.append(Query('json-module-size-is-the-byte-length-of-the-stored-text', b != ln, ops=[OpSize()], world=W(), realizable=real))
        qs.append(Query('witness-bom-kind', kind == mir.enums['DecodedArcSourceDetailKind'].index('OnlyUtf8Bom'), expect='sat', kind='witness', ops=[OpSize()], world=W(), realizable=real))
    elif cube['part'] == 'charset':
        has_header = sym.bool('header_charset_given')
        eng.cfg['scheme'] = [sym.bv('specifier_scheme', 8, lt=len(SCHEMES))]
        eng.cfg.update(decode_ok_tag=sym.bv('decode_result', 8, lt=2), decoded_len=sym.bv('decoded_len', 64), decoded_kind=sym.bv('decoded_kind', 8, lt=3))
        header = opt(has_header, ref_to(SymStr('header-charset'), 'hdr'))
        # the decoder's notion of a supported label is environment (deno_media_type): arbitrary for the header label; by its contract an unsupported
        # label makes decode_arc_source_detail fail
        label_ok = sym.bool('header_label_supported')
        eng.cfg['stubs'] = [(re.compile(r'(.*::)?convert_to_utf8'), lambda e, c, a, g: EnumV(IF(label_ok, BV(0, 8), BV(1, 8)), {0: Agg([Opaque('converted text')]), 1: Agg([Opaque('unsupported label')])}))]
        name = mir.index[(None, None, 'new_source_with_text')]
        r = eng.call(name, [ref_to(UrlV(BV(0, 8)), 'spec'), Opaque('bytes'), header, none()], TRUE)
        calls = eng.cfg.get('decode_calls', [])
        wrong = []
        for g, cs in calls:
            tag = cs.tag if isinstance(cs, SymStr) else '?'
            if tag == 'header-charset': wrong.append(z3.And(g, z3.Not(has_header)))
            elif tag == 'detected-charset': wrong.append(z3.And(g, has_header))
            else: wrong.append(g)
        used_header = Or(g for g, cs in calls if isinstance(cs, SymStr) and cs.tag == 'header-charset')
        class W:
            def to_json(self, m): return {'positions': True}
        class OpCs:
            def op_json(self, m): return {'op': 'charset_choice', 'has_header': ev(m, has_header), 'label_supported': ev(m, label_ok), 'scheme': SCHEMES[ev(m, eng.cfg['scheme'][0])] if SCHEMES[ev(m, eng.cfg['scheme'][0])] != 'other' else 'ext'}
            def decode(self, m): return {'used': 'error' if ev(m, eng.cfg['decode_ok_tag']) == 1 else 'header-charset' if ev(m, used_header) else 'detected-charset'}
        # natively replayable: the module decodes at all (decoder succeeds) and the scheme is one a module can be parsed under
        real = [(eng.cfg['decode_ok_tag'] == 1) == z3.And(used_header, z3.Not(label_ok)), z3.Or([eng.cfg['scheme'][0] == SCHEMES.index(x) for x in ('file', 'https', 'http')])]
        qs.append(Query('decoder-is-called-exactly-once', z3.Not(z3.And(Or(g for g, _ in calls), And(z3.Not(z3.And(calls[i][0], calls[j][0])) for i in range(len(calls)) for j in range(i + 1, len(calls))))) if calls else z3.BoolVal(True)))
        qs.append(Query('header-charset-wins-else-detected-charset', Or(wrong), ops=[OpCs()], world=W(), realizable=real))
        qs.append(Query('witness-header-charset-used', z3.And(has_header, used_header), expect='sat', kind='witness', ops=[OpCs()], world=W(), realizable=real))
        qs.append(Query('witness-unsupported-header-label-is-a-decode-error-not-a-fallback', z3.And(has_header, used_header, z3.Not(label_ok)), expect='sat', kind='witness', ops=[OpCs()], world=W(), realizable=real))
        ok = r.vars[0].f[0]
        txt = ok.f[st['ModuleTextSource'].index('text')]; kd = ok.f[st['ModuleTextSource'].index('decoded_kind')]
        qs.append(Query('stores-exactly-the-decoders-text-and-kind-or-an-error', z3.Or(r.is_variant(1) != (eng.cfg['decode_ok_tag'] == 1),
                        z3.And(r.is_variant(0), z3.Or(txt.len != eng.cfg['decoded_len'], kd.tag != eng.cfg['decoded_kind'])))))
        qs.append(Query('witness-detected', z3.Not(has_header), expect='sat', kind='witness'))
    qs.insert(0, Query('no-panic', Or(gd for _, gd in eng.panics)))
    return eng, None, list(sym.cons), qs

def run_cube_custom(mir, cube, tier, replay_dir):
    """Kani cube: one record per harness"""
    from ..kanirun import run_kani, playback
    t0 = time.time()
    res, secs = run_kani(cube['harnesses'], timeout_s=1200 if tier == 'quick' else 3000)
    rec = {'cube': 'kani', 'queries': [], 'violations': [], 'known': [], 'inconclusive': [], 'replayed': 0, 'solver_s': secs, 'blocks': sum(r['checks'] for r in res), 'calls': len(res),
           'fns': ['graph::ModuleTextSource::try_get_original_bytes (compiled code, via Kani/CBMC)'], 'models': ['kani 0.68 / CBMC 6.11 (cadical)'], 'cube_params': cube}
    for r in res:
        q = {'name': 'kani:' + r['harness'].split('::')[-1], 'kind': 'property', 'expect': 'unsat', 'verdict': {'success': 'unsat', 'failed': 'sat', 'inconclusive': 'unknown'}[r['status']],
             'solver_s': r['seconds'], 'checks': r['checks'], 'covers': r['covers']}
        rec['queries'].append(q)
        if r['status'] == 'inconclusive': rec['inconclusive'].append(f"{r['harness']}: {r['detail'][:600]}")
        elif r['status'] == 'failed':
            ok, path, log = playback(r['harness'].split('::')[-1], replay_dir); rec['replayed'] += 1
            if ok: rec['violations'].append({'query': q['name'], 'replay': path, 'detail': {'failed_checks': r['detail'], 'playback': log[-600:]}})
            else: rec['inconclusive'].append(f"{r['harness']}: Kani reports a failure that concrete playback does not reproduce natively: {r['detail'][:400]} {log[-400:]}")
    rec['wall_s'] = round(time.time() - t0, 1)
    return rec

def differential(mir, seed, count):
    from . import pmsi
    return pmsi.differential(mir, seed, count)
