"""Kernel: Builder::handle_jsr_registry_pending_content_loads — an `async fn` whose body is a loop with one await (the stream of
deferred content loads of registry files whose module information was embedded in the version manifest).

The coroutine body runs from MIR; `pending_content_loads.next()` is environment: its first poll is Ready(Some(item)) with an arbitrary
item (any loader outcome for the file: module with the same or another specifier | redirect | external | not found | error; referrer
present or not), its second Ready(None); the loop is unrolled accordingly (unwinding obligation discharged). The entry of the file is
arbitrary among what the design allows at that point (a Js / Json / Wasm module, or an error). The decoder is the same model as in the
C20 charset kernel; new_source_with_text runs from MIR.

C20 reading: the stored source of a Js / Json module becomes exactly the decoder's text AND decoded-kind marker for exactly the loaded
bytes (no charset: JSR content is UTF-8 / BOM-detected), an undecodable content becomes an error entry; a Wasm module keeps exactly the
loaded bytes.
C03 reading: every outcome is settled without panicking: not found -> Missing, loader error -> Load(Jsr ContentLoad), external ->
Load(Jsr ContentLoadExternalSpecifier), redirect or another specifier -> Load(Jsr RedirectInPackage), each at the file's specifier with
the referrer of the request; an entry that already is an error is left alone; the loop ends when the stream is empty."""
import z3, re
from ..engine import *
from ..models import *
from ..world import Sym
from ..oracle import Or, And
from ..harness import Query
from ..ops import ev

RESP = ['Module', 'ModuleOtherSpecifier', 'Redirect', 'External', 'NotFound', 'Error']

def build(mir, cube):
    sym = Sym()
    st, en = dict(mir.structs), mir.enums
    MT = en['MediaType']
    eng = Engine(mir, usize_bits=8, unroll=3)
    eng.cfg['N'] = 2; eng.cfg['scheme'] = [BV(0, 8), BV(0, 8)]
    r0 = sym.bv('loader_answer', 8, lt=len(RESP)); has_ref = sym.bool('has_referrer')
    slot_kind = sym.bv('entry_kind', 8, lt=4)          # 0 Js, 1 Json, 2 Wasm, 3 already an error
    wasm_ok = sym.bool('wasm_to_dts_ok')
    eng.cfg.update(decode_ok_tag=sym.bv('decode_result', 8, lt=2), decoded_len=sym.bv('decoded_len', 64), decoded_kind=sym.bv('decoded_kind', 8, lt=3))
    decode_ok = eng.cfg['decode_ok_tag'] == 0
    CONTENT, OLD = 10, 5
    LR, LE, SL, MOD = en['LoadResponse'], en['LoadError'], en['ModuleSlot'], en['Module']
    rng = Agg([{'specifier': UrlV(BV(1, 8))}.get(f, O) for f in st['Range']])
    old_src = Agg([{'text': TextLenV(BV(OLD, 64)), 'decoded_kind': EnumV(BV(0, 8), {})}[f] for f in st['ModuleTextSource']])
    js = Agg([{'specifier': UrlV(BV(0, 8)), 'media_type': EnumV(sym.bv('media_type', 8, lt=len(MT)), {}), 'source': old_src}.get(f, O) for f in st['JsModule']])
    json_ = Agg([{'specifier': UrlV(BV(0, 8)), 'source': old_src}.get(f, O) for f in st['JsonModule']])
    wasm = Agg([{'specifier': UrlV(BV(0, 8)), 'source': Agg([BV(OLD, 8)]), 'source_dts': SymStr('wasm dts')}.get(f, O) for f in st['WasmModule']])
    module = EnumV(slot_kind, {MOD.index('Js'): Agg([js]), MOD.index('Json'): Agg([json_]), MOD.index('Wasm'): Agg([wasm])})
    slot = EnumV(IF(EQ(slot_kind, BV(3, 8)), BV(SL.index('Err'), 8), BV(SL.index('Module'), 8)), {SL.index('Module'): Agg([module]), SL.index('Err'): Agg([Opaque('earlier error')])})
    graph = Root(Agg([{'module_slots': MapModel([TRUE, FALSE], [slot, None])}.get(f, O) for f in st['ModuleGraph']]), 'graph')
    polls, decode_bytes, cached = [0], [], []
    def ready(v): return EnumV(BV(0, 8), {0: Agg([v])})
    def stub_next_poll(e, c, a, g):
        polls[0] += 1
        if polls[0] > 1: return ready(none())
        mod_same = Agg([Agg([BV(CONTENT, 8)]), none(), UrlV(BV(0, 8)), none()]); mod_other = Agg([Agg([BV(CONTENT, 8)]), none(), UrlV(BV(1, 8)), none()])
        tag = IF(ULE(r0, BV(1, 8)), BV(LR.index('Module'), 8), IF(EQ(r0, BV(2, 8)), BV(LR.index('Redirect'), 8), BV(LR.index('External'), 8)))
        lresp = EnumV(tag, {LR.index('Module'): ite(EQ(r0, BV(0, 8)), mod_same, mod_other), LR.index('Redirect'): Agg([UrlV(BV(1, 8))]), LR.index('External'): Agg([UrlV(BV(0, 8))])})
        okv = EnumV(IF(EQ(r0, BV(4, 8)), BV(0, 8), BV(1, 8)), {0: Agg([]), 1: Agg([lresp])})
        res = EnumV(IF(EQ(r0, BV(5, 8)), BV(1, 8), BV(0, 8)), {0: Agg([okv]), 1: Agg([Opaque('loader error')])})
        item = Agg([{'specifier': UrlV(BV(0, 8)), 'maybe_range': opt(has_ref, rng), 'result': res, 'module_info': Opaque('embedded module info')}[f] for f in st['PendingContentLoadItem']])
        return ready(opt(TRUE, item))
    def stub_decode(e, c, a, g):
        decode_bytes.append((g, a[1])); return decode_model(e, c, a, g)
    ident = lambda e, c, a, g: a[0]
    eng.cfg['stubs'] = [
        (re.compile(r'<FuturesUnordered<.*> as StreamExt>::next'), lambda e, c, a, g: Opaque('next future')),
        (re.compile(r'<Next<.*> as .*Future>::poll'), stub_next_poll),
        (re.compile(r'<.* as .*IntoFuture>::into_future'), ident), (re.compile(r'Pin::<&mut .*>::new_unchecked'), lambda e, c, a, g: Agg([a[0]])),
        (re.compile(r'<dyn .*ModuleInfoCacher as .*ModuleInfoCacher>::cache_module_info'), lambda e, c, a, g: (cached.append(g), UNIT)[1]),
        (re.compile(r'wasm_module_to_dts'), lambda e, c, a, g: EnumV(IF(wasm_ok, BV(0, 8), BV(1, 8)), {0: Agg([SymStr('wasm dts')]), 1: Agg([Opaque('wasm error')])})),
        (re.compile(r'decode_arc_source_detail'), stub_decode),
        (re.compile(r'<String as Into<Arc<str>>>::into|<Arc<\[u8\]> as Deref>::deref|Arc::<.*LoadError>::new'), ident),
        (re.compile(r'<Arc<\[u8\]> as Clone>::clone'), lambda e, c, a, g: e.load(a[0]) if isinstance(a[0], Ptr) else a[0]),
    ]
    state = Agg([{'jsr': Agg([{'pending_content_loads': Opaque('content loads')}.get(f, O) for f in st['PendingJsrState']])}.get(f, O) for f in st['PendingState']])
    builder = Root(Agg([{'graph': Ptr([(TRUE, (graph, ()))]), 'state': state, 'module_info_cacher': Opaque('cacher')}.get(f, O) for f in st['Builder']]), 'builder')
    coro = CoroV(BV(0, 8), {}, [Ptr([(TRUE, (builder, ()))])])
    fname = next(n for n in mir.fn_text if n.endswith('handle_jsr_registry_pending_content_loads::{closure#0}'))
    poll = eng.call(fname, [Agg([ref_to(coro, 'content-loads')]), Opaque('task context')], TRUE)
    ready_ = poll.is_variant(0)
    post = graph.val.f[st['ModuleGraph'].index('module_slots')]
    pv = post.vals[0]
    A = lambda n: r0 == RESP.index(n)
    is_mod = z3.And(post.present[0], pv.tag == SL.index('Module')); is_errslot = z3.And(post.present[0], pv.tag == SL.index('Err'))
    pm = pv.vars[SL.index('Module')].f[0]
    def src_of(kind): return pm.vars[MOD.index(kind)].f[0].f[st[kind + 'Module'].index('source')]
    errp = pv.vars[SL.index('Err')].f[0]
    ek = errp
    while isinstance(ek, (BoxV, Agg)) and not isinstance(ek, EnumV): ek = ek.val if isinstance(ek, BoxV) else (ek.f[0] if ek.f else None)
    MEK, MLE, JLE = en['ModuleErrorKind'], en['ModuleLoadError'], en['JsrLoadError']
    def err_is(kind, jsr=None, need_ref=True):
        if not isinstance(ek, EnumV): return z3.BoolVal(False)
        c = [is_errslot, ek.tag == MEK.index(kind)]
        fs = ek.vars.get(MEK.index(kind))
        if fs is None: return z3.BoolVal(False)
        if kind in ('Load', 'Missing'):
            c.append(fs.f[0].id == 0 if isinstance(fs.f[0], UrlV) else z3.BoolVal(False))
            c.append(fs.f[1].is_variant(1) == has_ref if isinstance(fs.f[1], EnumV) else z3.BoolVal(False))
        if jsr is not None:
            mle = fs.f[2]
            if not isinstance(mle, EnumV): return z3.BoolVal(False)
            j = mle.vars.get(MLE.index('Jsr')); j = j.f[0] if j is not None and j.f else None
            if not isinstance(j, EnumV): return z3.BoolVal(False)
            c += [mle.tag == MLE.index('Jsr'), j.tag == JLE.index(jsr)]
        return z3.And(c)
    text_slot = z3.Or(slot_kind == 0, slot_kind == 1)
    qs = [Query('no-panic', Or(g for _, g in eng.panics)), Query('the-loop-ends-when-the-stream-is-empty', z3.Not(ready_))]
    for fname_ in sorted({f for f, _ in eng.exceeded}): qs.append(Query('unwinding:' + fname_.split('>::')[-1], Or(g for f, g in eng.exceeded if f == fname_), kind='unwind'))
    if cube.get('c03'):
        qs += [Query('not-found-is-a-missing-error-at-the-file-with-the-referrer', z3.And(A('NotFound'), z3.Not(err_is('Missing')))),
               Query('a-loader-error-is-a-content-load-error-at-the-file-with-the-referrer', z3.And(A('Error'), z3.Not(err_is('Load', 'ContentLoad')))),
               Query('an-external-answer-is-an-error-at-the-file-with-the-referrer', z3.And(A('External'), z3.Not(err_is('Load', 'ContentLoadExternalSpecifier')))),
               Query('a-redirect-or-another-specifier-is-rejected-as-redirect-in-package', z3.And(z3.Or(A('Redirect'), A('ModuleOtherSpecifier')), z3.Not(err_is('Load', 'RedirectInPackage')))),
               Query('an-entry-that-already-is-an-error-is-left-alone-by-a-delivered-module', z3.And(A('Module'), slot_kind == 3, z3.Not(is_errslot))),
               Query('a-delivered-module-leaves-a-module-or-a-decode-or-wasm-error', z3.And(A('Module'), slot_kind != 3, z3.Not(z3.Or(is_mod, is_errslot)))),
               Query('witness-missing', z3.And(A('NotFound'), err_is('Missing')), expect='sat', kind='witness')]
    else:
        bad = []
        for kind, k in (('Js', 0), ('Json', 1)):
            s_ = src_of(kind); T = st['ModuleTextSource']
            t_, kd = s_.f[T.index('text')], s_.f[T.index('decoded_kind')]
            stored = z3.And(is_mod, pm.tag == MOD.index(kind), t_.len == eng.cfg['decoded_len'], kd.tag == eng.cfg['decoded_kind'])
            bad.append(z3.And(A('Module'), slot_kind == k, z3.If(decode_ok, z3.Not(stored), z3.Not(is_errslot))))
        dcalls = eng.cfg.get('decode_calls', [])
        wrong_bytes = Or(z3.And(g, (b.f[0] != CONTENT) if isinstance(b, Agg) and z3.is_bv(b.f[0]) else z3.BoolVal(True)) for g, b in decode_bytes)
        wrong_cs = Or(g for g, cs in dcalls if not (isinstance(cs, SymStr) and cs.tag == 'detected-charset'))
        once = z3.And(A('Module'), text_slot, z3.Not(z3.And(Or(g for g, _ in dcalls), And(z3.Not(z3.And(dcalls[i][0], dcalls[j][0])) for i in range(len(dcalls)) for j in range(i + 1, len(dcalls))))))
        wsrc = src_of('Wasm')
        class W:
            has_fc = True
            def to_json(self, m): return {'positions': True}
        jsrc = src_of('Js'); T_ = st['ModuleTextSource']
        class Op:
            # replayed through a real build: a jsr: import of a package with embedded module information, nothing cached, the deferred content load
            # delivers a UTF-8 text with a BOM (so the decoder's marker is OnlyUtf8Bom and the original bytes differ from the text)
            def op_json(self, m):
                return {'op': 'try_load', 'source_report': True, 'content_bom': True, 'asset': False, 'checksum_known': False, 'answers': ['NotFound', 'Module'], 'parse_ok': True,
                        'in_dynamic_branch': False, 'redirect_count': 0, 'max_redirects': 10, 'route': 'jsr_specifier', 'embedded_info': True}
            def decode(self, m):
                return {'text_is_the_decoding': ev(m, jsrc.f[T_.index('text')].len) == ev(m, eng.cfg['decoded_len']),
                        'original_bytes_are_the_loaded_bytes': ev(m, jsrc.f[T_.index('decoded_kind')].tag) == ev(m, eng.cfg['decoded_kind'])}
        OnlyBom = en['DecodedArcSourceDetailKind'].index('OnlyUtf8Bom')
        real = [A('Module'), slot_kind == 0, decode_ok, eng.cfg['decoded_kind'] == OnlyBom, eng.cfg['decoded_len'] == 1, has_ref]
        kw = dict(ops=[Op()], world=W(), realizable=real)
        qs += [Query('the-stored-source-becomes-exactly-the-decoders-text-and-kind-or-a-decode-error', Or(bad), **kw),
               Query('witness-bom-content-stored-with-its-marker', z3.And(A('Module'), slot_kind == 0, decode_ok, is_mod), expect='sat', kind='witness', **kw),
               Query('the-decoder-gets-exactly-the-loaded-bytes', wrong_bytes), Query('registry-content-is-decoded-under-the-detected-charset', wrong_cs),
               Query('a-delivered-text-module-is-decoded-exactly-once', once),
               Query('a-wasm-module-keeps-exactly-the-loaded-bytes-or-becomes-a-wasm-error', z3.And(A('Module'), slot_kind == 2, z3.If(wasm_ok, z3.Not(z3.And(is_mod, wsrc.f[0] == CONTENT)), z3.Not(is_errslot)))),
               Query('other-answers-do-not-touch-the-stored-source', z3.And(z3.Not(A('Module')), Or(g for g, _ in dcalls))),
               Query('witness-source-replaced', z3.And(A('Module'), slot_kind == 0, decode_ok, is_mod), expect='sat', kind='witness'),
               Query('witness-decode-error', z3.And(A('Module'), slot_kind == 1, z3.Not(decode_ok), is_errslot), expect='sat', kind='witness')]
    return eng, (W() if not cube.get('c03') else None), list(sym.cons), qs
