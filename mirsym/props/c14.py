"""C14 — redirect following terminates and is idempotent; every lookup agrees with the walk.

ModuleGraph::{resolve,get,contains,try_get,try_get_prefer_types,specifiers,resolve_dependency} are executed from MIR on an
arbitrary graph state and compared with what a walk reaches from the same specifier (entries first, then redirects)."""
import z3
from ..engine import *
from ..models import *
from ..world import GraphWorld, Sym
from ..ops import Lookup, Specifiers, ResolveDependency, WalkOptions, Walk, ev
from ..oracle import WalkOracle, Or, And
from ..harness import Query

ID = 'C14'
BUILD_PROBES = True   # evidence: the states behind the recorded findings are produced by the real builder
ASSUMPTIONS = [
    'graph state satisfies the representation invariant of DESIGN.md section 3; in particular entries at redirect sources, redirect cycles and Pending entries are NOT excluded',
    'MAX_REDIRECTS behaviour is only exercised by the redirect-only worlds with N >= 11',
    'Url is an atom of a finite universe; BTreeMap/HashSet/IndexMap operations are modelled (see environment_models)',
]

GROUPS = ['resolve', 'lookups', 'prefer_types', 'specifiers', 'resolve_dependency', 'walk_agreement']

def cubes(tier, has_fc):
    out = []
    if tier == 'quick':
        for g in GROUPS: out.append({'N': 3, 'D': 1, 'I': 1, 'group': g, 'redirect_only': False})
        out.append({'N': 6, 'D': 0, 'I': 0, 'group': 'resolve', 'redirect_only': True, 'shape': 'free'})
        out.append({'N': 12, 'D': 0, 'I': 0, 'group': 'resolve', 'redirect_only': True, 'shape': 'chain'})
        out.append({'N': 12, 'D': 0, 'I': 0, 'group': 'lookups', 'redirect_only': True, 'shape': 'chain'})
    else:
        for g in GROUPS:
            out.append({'N': 4, 'D': 2, 'I': 1, 'group': g, 'redirect_only': False})
        out.append({'N': 7, 'D': 0, 'I': 0, 'group': 'resolve', 'redirect_only': True, 'shape': 'free'})
        for g in ('resolve', 'lookups', 'specifiers'):
            out.append({'N': 12, 'D': 0, 'I': 0, 'group': g, 'redirect_only': True, 'shape': 'chain'})
            out.append({'N': 5, 'D': 0, 'I': 0, 'group': g, 'redirect_only': True, 'shape': 'free'})
    return out

def cube_name(c): return f"N{c['N']}D{c['D']}I{c['I']}_{c['group']}" + (('_redirects-' + c.get('shape', 'free')) if c['redirect_only'] else '')

class RedirectFacts:
    """oracle-side facts about the redirect structure (plain z3 over the world description)"""
    def __init__(self, w):
        self.w = w; N = w.N
        self.R1 = [[z3.And(w.mods[i]['red'][0], w.mods[i]['red'][1] == j) for j in range(N)] for i in range(N)]
        R = self.R1
        for _ in range(max(1, N.bit_length())):
            R = [[z3.Or([R[i][j]] + [z3.And(R[i][k], R[k][j]) for k in range(N)]) for j in range(N)] for i in range(N)]
        self.Rplus = R
    def on_path(self, x, k):
        """k lies on the redirect chain starting at x (x itself included)"""
        N = self.w.N
        return z3.Or(x == k, Or(z3.And(x == i, self.Rplus[i][k]) for i in range(N)))
    def cycle_from(self, x):
        N = self.w.N
        return Or(z3.And(self.on_path(x, k), self.Rplus[k][k]) for k in range(N))
    def entry_at_source_from(self, x):
        N, w = self.w.N, self.w
        return Or(z3.And(self.on_path(x, k), w.mods[k]['red'][0], w.has_slot(k)) for k in range(N))
    def chain_len_ge(self, x, n):
        """the chain from x has at least n distinct specifiers (acyclic case)"""
        N = self.w.N
        if n > N: return z3.BoolVal(False)
        cnt = z3.Sum([z3.If(self.on_path(x, k), 1, 0) for k in range(N)])
        return cnt >= n

def walk_final(w, x, hops=None):
    """the specifier a walk reaches from x: redirects are followed only where no entry exists"""
    N = w.N
    cur = x
    for _ in range(hops or N):
        nxt = cur
        for k in range(N): nxt = z3.If(z3.And(cur == k, z3.Not(w.has_slot(k)), w.mods[k]['red'][0]), w.mods[k]['red'][1], nxt)
        cur = nxt
    return cur

def at(x, preds):
    """preds[k] holds for the k with x == k"""
    return Or(z3.And(x == k, preds[k]) for k in range(len(preds)))

def build(mir, cube):
    N, D, I = cube['N'], cube['D'], cube['I']
    sym = Sym()
    w = GraphWorld(mir, sym, N, max(D, 1) if not cube['redirect_only'] else 1, I)
    eng = Engine(mir, usize_bits=8, unroll=N + 2, unroll_by_fn={'resolve': N + 1, 'new': N + 3 * I * w.DI + 2, 'analyze_module_deps': 3 * w.D + 1})
    w.configure(eng)
    base = w.invariant()
    if cube['redirect_only']:
        # redirect world R(N): entries are absent, a Json module, or an error; no dependencies
        for i, m in enumerate(w.mods):
            base.append(z3.Or(z3.Not(m['present']), z3.And(m['slotkind'] == 0, m['modkind'] == 1), m['slotkind'] == 1))
        for imp in w.imports: base.append(z3.Not(imp['p']))
        if cube.get('shape') == 'chain':
            # u_i -> u_{i+1} with symbolic presence, plus an optional back edge from the last specifier (crosses MAX_REDIRECTS = 10)
            for i, m in enumerate(w.mods):
                if i < N - 1: base.append(z3.Implies(m['red'][0], m['red'][1] == i + 1))
    F = RedirectFacts(w)
    x = sym.bv('x', 8, lt=N)
    fin = walk_final(w, x)
    is_mod = [w.is_module(i) for i in range(N)]
    is_err = [w.is_err(i) for i in range(N)]
    known_x = lambda *xs: [('lookup-through-redirect-cycle', Or(F.cycle_from(v) for v in xs)),
                           ('lookup-through-entry-at-redirect-source', Or(F.entry_at_source_from(v) for v in xs)),
                           ('redirect-chain-reaches-MAX_REDIRECTS', Or(F.chain_len_ge(v, 11) for v in xs))]
    qs, ops = [], []
    g = cube['group']
    if g == 'resolve':
        r1 = Lookup(eng, w, 'resolve', x)
        r2eng = eng.call(mir.find('ModuleGraph', 'resolve'), [w.ptr, url_ref(r1.result)], TRUE)
        z = uid(eng, r2eng)
        ops = [r1]
        qs.append(Query('resolve-idempotent', r1.result != z, ops=ops, world=w, known=known_x(x),
                        describe=lambda m: {'x': ev(m, x), 'resolve(x)': ev(m, r1.result), 'resolve(resolve(x))': ev(m, z)}))
        # resolve never invents a specifier: the result lies on x's redirect chain
        qs.append(Query('resolve-result-on-chain', z3.Not(Or(z3.And(r1.result == k, F.on_path(x, k)) for k in range(N))), ops=ops, world=w))
        # on regular chains resolve returns the end of the chain
        end_of_chain = Or(z3.And(r1.result == k, z3.Not(w.mods[k]['red'][0])) for k in range(N))
        qs.append(Query('resolve-reaches-end-of-chain', z3.Not(end_of_chain), ops=ops, world=w, known=known_x(x)))
        qs.append(Query('witness-two-hops', z3.And(r1.result != x, Or(z3.And(F.R1[i][j], x == i, r1.result != j) for i in range(N) for j in range(N))), expect='sat', kind='witness', ops=ops, world=w))
        if N >= 11: qs.append(Query('witness-limit-crossed', F.chain_len_ge(x, 11), expect='sat', kind='witness', ops=ops, world=w))
    elif g == 'lookups':
        get = Lookup(eng, w, 'get', x); con = Lookup(eng, w, 'contains', x); tg = Lookup(eng, w, 'try_get', x)
        ops = [get, con, tg]
        fm, fe = at(fin, is_mod), at(fin, is_err)
        k = known_x(x)
        qs.append(Query('get-returns-module-the-walk-reaches', z3.Or(get.some != fm, z3.And(get.some, get.mod_spec != fin)), ops=ops, world=w, known=k,
                        describe=lambda m: {'x': ev(m, x), 'walk_reaches': ev(m, fin)}))
        qs.append(Query('contains-iff-module-reached', con.result != fm, ops=ops, world=w, known=k))
        qs.append(Query('try_get-returns-error-the-walk-reaches', z3.Or(tg.is_err != fe, z3.And(tg.is_err, tg.err_spec != fin)), ops=ops, world=w, known=k))
        qs.append(Query('try_get-returns-module-the-walk-reaches', z3.Or(tg.some != fm, z3.And(tg.some, tg.mod_spec != fin)), ops=ops, world=w, known=k))
        qs.append(Query('witness-error-behind-two-redirects', z3.And(tg.is_err, x != fin, Or(z3.And(F.R1[i][j], x == i, fin != j) for i in range(N) for j in range(N))), expect='sat', kind='witness', ops=ops, world=w))
    elif g == 'prefer_types':
        tp = Lookup(eng, w, 'try_get_prefer_types', x)
        ops = [tp]
        fm, fe = at(fin, is_mod), at(fin, is_err)
        # the module reached has a loaded types dependency -> that one; otherwise the module itself
        tdt = [w.mods[i]['td']['res'][1] for i in range(N)]
        has_td = at(fin, [z3.And(w.is_js(i), w.mods[i]['td']['p'], w.mods[i]['td']['res'][0] == 1) for i in range(N)])
        tdtarget = z3.BitVecVal(0, 8)
        for i in range(N): tdtarget = z3.If(fin == i, tdt[i], tdtarget)
        tfin = walk_final(w, tdtarget)
        exp_spec = z3.If(z3.And(fm, has_td), tfin, fin)
        exp_mod = z3.If(z3.And(fm, has_td), at(tfin, is_mod), fm)
        exp_err = z3.If(z3.And(fm, has_td), at(tfin, is_err), fe)
        k = known_x(x, tdtarget)
        qs.append(Query('try_get_prefer_types-module', z3.Or(tp.some != exp_mod, z3.And(tp.some, tp.mod_spec != exp_spec)), ops=ops, world=w, known=k))
        qs.append(Query('try_get_prefer_types-error', z3.Or(tp.is_err != exp_err, z3.And(tp.is_err, tp.err_spec != exp_spec)), ops=ops, world=w, known=k))
        qs.append(Query('witness-types-module-preferred', z3.And(tp.some, fm, has_td, tp.mod_spec != fin), expect='sat', kind='witness', ops=ops, world=w))
    elif g == 'specifiers':
        sp = Specifiers(eng, w)
        ops = [sp]
        allx = [z3.BitVecVal(i, 8) for i in range(N)]
        k = [('lookup-through-redirect-cycle', Or(F.Rplus[i][i] for i in range(N))),
             ('lookup-through-entry-at-redirect-source', Or(z3.And(w.mods[i]['red'][0], w.has_slot(i)) for i in range(N))),
             ('redirect-chain-reaches-MAX_REDIRECTS', Or(F.chain_len_ge(v, 11) for v in allx))]
        bad = []
        for i in range(N):
            fi = walk_final(w, z3.BitVecVal(i, 8))
            known_spec = z3.Or(w.has_slot(i), w.mods[i]['red'][0])
            exp_listed = z3.And(known_spec, z3.Or(at(fi, is_mod), at(fi, is_err)))
            bad.append(sp.listed(i) != exp_listed)
            bad.append(z3.And(exp_listed, z3.Not(sp.listed(i, is_err=at(fi, is_err), target=fi))))
        qs.append(Query('specifiers-lists-entries-and-redirect-sources-with-target-results', Or(bad), ops=ops, world=w, known=k))
        dup = Or(z3.And(a['avail'], b['avail'], a['id'] == b['id']) for ai, a in enumerate(sp.items) for b in sp.items[ai + 1:])
        qs.append(Query('specifiers-lists-each-specifier-once', dup, ops=ops, world=w, known=k))
        qs.append(Query('witness-redirect-source-listed', Or(z3.And(sp.listed(i), z3.Not(w.has_slot(i))) for i in range(N)), expect='sat', kind='witness', ops=ops, world=w))
    elif g == 'resolve_dependency':
        ref = sym.bv('referrer', 8, lt=N); text = sym.bv('text', 8, lt=w.ntext); pt = sym.bool('prefer_types')
        rd = ResolveDependency(eng, w, text, ref, pt)
        ops = [rd]
        rf = walk_final(w, ref)
        # the dependency record the statement talks about: dependency `text` of the module reached for the referrer,
        # or of the configured import keyed by the referrer when no module is reached
        cands = []
        for i in range(N):
            for d in w.mods[i]['deps']:
                cands.append((z3.And(rf == i, w.has_deps(i), d['p'], text == d['text']), d))
        for imp in w.imports:
            for d in imp['deps']:
                cands.append((z3.And(z3.Not(at(rf, is_mod)), imp['p'], imp['ref'] == rf, d['p'], text == d['text']), d))
        found = Or(c for c, _ in cands)
        def pick(field, idx):
            v = z3.BitVecVal(0, 8)
            for c, d in cands: v = z3.If(c, d[field][idx], v)
            return v
        ck, ct, tk, tt = pick('code', 0), pick('code', 1), pick('type', 0), pick('type', 1)
        first_ok = z3.If(pt, tk == 1, ck == 1); second_ok = z3.If(pt, ck == 1, tk == 1)
        target = z3.If(first_ok, z3.If(pt, tt, ct), z3.If(pt, ct, tt))
        has_target = z3.And(found, z3.Or(first_ok, second_ok))
        m = walk_final(w, target)
        m_is_mod = at(m, is_mod)
        has_td = at(m, [z3.And(w.is_js(i), w.mods[i]['td']['p'], w.mods[i]['td']['res'][0] == 1) for i in range(N)])
        tdtarget = z3.BitVecVal(0, 8)
        for i in range(N): tdtarget = z3.If(m == i, w.mods[i]['td']['res'][1], tdtarget)
        tm = walk_final(w, tdtarget)
        use_types = z3.And(pt, m_is_mod, has_td, at(tm, is_mod))
        exp_some = z3.And(has_target, m_is_mod)
        exp_spec = z3.If(use_types, tm, m)
        k = known_x(ref, target, tdtarget)
        qs.append(Query('resolve_dependency-returns-types-module-when-loaded-else-code-module',
                        z3.Or(rd.some != exp_some, z3.And(rd.some, rd.result != exp_spec)), ops=ops, world=w, known=k,
                        describe=lambda mo: {'expected': ev(mo, exp_spec) if ev(mo, exp_some) else None}))
        qs.append(Query('witness-types-module-returned', z3.And(rd.some, use_types, tm != m), expect='sat', kind='witness', ops=ops, world=w))
        qs.append(Query('witness-import-referrer', z3.And(rd.some, z3.Not(at(rf, is_mod))), expect='sat' if I else 'unsat', kind='witness' if I else 'property', ops=ops, world=w))
    elif g == 'walk_agreement':
        # the oracle's "what a walk reaches from x" is itself checked against the real walk executed from MIR:
        # a walk rooted at x alone (code-only, which follows nothing but redirects before the first entry) yields fin as its first non-redirect entry
        opts = WalkOptions(w, sym, 'w', {'kind': 1, 'fd': False, 'cj': 0, 'pfc': False})
        rootsel = [x == i for i in range(N)]
        walk = Walk(eng, w, opts, rootsel, N + 1)
        ops = [walk]
        # no configured imports in this cube (they are extra roots)
        for imp in w.imports: base.append(z3.Not(imp['p']))
        first_entry = None
        seen_entry = z3.BoolVal(False)
        reached_mod, reached_err, reached_id = z3.BoolVal(False), z3.BoolVal(False), z3.BitVecVal(255, 8)
        for y in walk.ys:
            is_first = z3.And(y['some'], y['tag'] != 2, z3.Not(seen_entry))
            reached_mod = z3.If(is_first, y['tag'] == 0, reached_mod); reached_err = z3.If(is_first, y['tag'] == 1, reached_err)
            reached_id = z3.If(is_first, y['id'], reached_id)
            seen_entry = z3.Or(seen_entry, z3.And(y['some'], y['tag'] != 2))
        fm, fe = at(fin, is_mod), at(fin, is_err)
        qs.append(Query('oracle-walk_final-equals-real-walk', z3.Or(reached_mod != fm, reached_err != fe, z3.And(z3.Or(fm, fe), reached_id != fin)), ops=ops, world=w))
    for fname in sorted({f for f, _ in eng.exceeded}):
        qs.insert(0, Query('unwinding:' + fname.split('>::')[-1], Or(gd for f, gd in eng.exceeded if f == fname), kind='unwind'))
    qs.insert(0, Query('model-capacity', Or(gd for _, gd in eng.obligations), kind='obligation'))
    qs.insert(0, Query('no-panic', Or(gd for _, gd in eng.panics), ops=ops, world=w))
    return eng, w, sym.cons + base, qs

def differential(mir, seed, count):
    from ..differential import graph_differential
    return graph_differential(mir, seed, count)
