"""C08 (partial) — position lookup and range arithmetic kernels of module analysis.

(a) For ALL 64-bit positions: Position ordering is lexicographic, PositionRange::includes is the closed lexicographic
interval test, and Dependency::includes(p) (<=3 imports + the type resolution) returns a range that contains p, and returns
nothing only when no import range and no type-resolution range contains p.
(b) comment_source_to_position_range maps a match inside a comment to the source offsets
[comment_start + 2 + start - pad, comment_start + 2 + end + pad] (pad = 1 exactly for quoted specifiers), each mapped through
the text's offset->position function (an arbitrary function here).
The swc visitor, the pragma regexes and the JSDoc parsers (the main clause of C08) are NOT covered."""
import z3
from ..engine import *
from ..models import *
from ..world import Sym
from ..oracle import Or, And
from ..harness import Query

ID = 'C08'
DEFAULT_FEATURES = True
ASSUMPTIONS = [
    'only the lookup and offset-arithmetic kernels are decided; which dependencies the parser visitor reports is outside',
    'deno_ast SourceTextInfo::line_and_column_index is an arbitrary function of the byte offset; SourcePos + usize is 64-bit addition (overflow asserted unreachable for offsets below 2^62)',
]
W64 = 64

def cubes(tier, has_fc):
    out = [{'part': 'position'}, {'part': 'dependency', 'imports': 2 if tier == 'quick' else 3}]
    out.append({'part': 'comment_range'})
    out.append({'part': 'v1_upgrade'})
    # cross-check of the two scalar kernels on the compiled crate (Kani/CBMC)
    out.append({'part': 'kani', 'engine': 'kani', 'harnesses': ['position_order_is_lexicographic', 'range_includes_is_the_closed_lexicographic_interval']})
    return out
def cube_name(c): return c['part'] + (str(c['imports']) if 'imports' in c else '')

def lex_le(a, b): return z3.Or(z3.ULT(a[0], b[0]), z3.And(a[0] == b[0], z3.ULE(a[1], b[1])))

class JsonWorld:
    def __init__(self, fn): self.fn = fn
    def to_json(self, m): return self.fn(m)
class Op:
    def __init__(self, name, args, dec): self.name, self.args, self.dec = name, args, dec
    def op_json(self, m): return dict(op=self.name, **self.args(m))
    def decode(self, m): return self.dec(m)

def build(mir, cube):
    from ..ops import ev
    sym = Sym()
    eng = Engine(mir, usize_bits=W64, unroll=6)
    eng.cfg.update(N=1, VEC=4)
    st = mir.structs
    def pos(name): return (sym.bv(name + '_line', W64), sym.bv(name + '_char', W64))
    def posv(p): return Agg([p[0], p[1]])
    def prange(name):
        s, e = pos(name + '_s'), pos(name + '_e')
        return (s, e), Agg([posv(s), posv(e)])
    qs = []
    world = JsonWorld(lambda m: {'positions': True})
    part = cube['part']
    if part == 'position':
        a, b = pos('a'), pos('b')
        r = eng.call(mir.find('Position', 'cmp', 'Ord'), [ref_to(posv(a), 'a'), ref_to(posv(b), 'b')], TRUE)
        lt = z3.Or(z3.ULT(a[0], b[0]), z3.And(a[0] == b[0], z3.ULT(a[1], b[1])))
        eq = z3.And(a[0] == b[0], a[1] == b[1])
        exp = z3.If(lt, z3.BitVecVal(255, 8), z3.If(eq, z3.BitVecVal(0, 8), z3.BitVecVal(1, 8)))
        op = Op('position_cmp', lambda m: {'a': [ev(m, a[0]), ev(m, a[1])], 'b': [ev(m, b[0]), ev(m, b[1])]}, lambda m: {'ordering': {255: -1, 0: 0, 1: 1}[ev(m, r.tag)]})
        qs.append(Query('position-order-is-lexicographic', r.tag != exp, ops=[op], world=world))
        (rs, re_), rv = prange('r'); p = pos('p')
        inc = eng.call(mir.find('PositionRange', 'includes'), [ref_to(rv, 'range'), posv(p)], TRUE)
        op2 = Op('range_includes', lambda m: {'start': [ev(m, rs[0]), ev(m, rs[1])], 'end': [ev(m, re_[0]), ev(m, re_[1])], 'p': [ev(m, p[0]), ev(m, p[1])]}, lambda m: {'includes': ev(m, inc)})
        qs.append(Query('range-includes-is-the-closed-lexicographic-interval', inc != z3.And(lex_le(rs, p), lex_le(p, re_)), ops=[op2], world=world))
        qs.append(Query('witness-multi-line-range-includes-position-left-of-start-column', z3.And(inc, z3.ULT(p[1], rs[1]), z3.UGT(p[1], re_[1])), expect='sat', kind='witness', ops=[op2], world=world))
    elif part == 'dependency':
        K = cube['imports']
        p = pos('p')
        nimp = sym.bv('n_imports', W64, lt=K + 1)
        ranges, items = [], []
        for k in range(K):
            (s, e), rv = prange(f'imp{k}')
            ranges.append((s, e))
            rng = Agg([{'specifier': O, 'range': rv, 'resolution_mode': O}[f] for f in st['Range']])
            items.append(Agg([{'specifier_range': rng}.get(f, O) for f in st['Import']]))
        (ts, te), trv = prange('type')
        trng = Agg([{'specifier': O, 'range': trv, 'resolution_mode': O}[f] for f in st['Range']])
        tk = sym.bv('type_kind', 8, lt=3)
        rerr = mir.enums['ResolutionError'].index('ResolverError')
        tres = EnumV(tk, {0: Agg([]), 1: Agg([BoxV(Agg([{'specifier': O, 'range': trng}[f] for f in st['ResolutionResolved']]))]), 2: Agg([BoxV(EnumV(rerr, {rerr: Agg([O, O, trng])}))])})
        dep = Agg([{'maybe_type': tres, 'imports': VecModel(items, nimp)}.get(f, O) for f in st['Dependency']])
        r = eng.call(mir.find('Dependency', 'includes'), [ref_to(dep, 'dep'), posv(p)], TRUE)
        some = opt_is_some(r); ref = opt_payload(r)
        got = eng.load(ref) if ref is not None else None
        grange = got.f[st['Range'].index('range')] if got is not None else None
        gs = (grange.f[0].f[0], grange.f[0].f[1]); ge = (grange.f[1].f[0], grange.f[1].f[1])
        def contains(s, e): return z3.And(lex_le(s, p), lex_le(p, e))
        any_contains = z3.Or([z3.And(z3.ULT(z3.BitVecVal(k, W64), nimp), contains(*ranges[k])) for k in range(K)] + [z3.And(tk != 0, contains(ts, te))])
        op = Op('dependency_includes', lambda m: {'imports': [[[ev(m, s[0]), ev(m, s[1])], [ev(m, e[0]), ev(m, e[1])]] for k, (s, e) in enumerate(ranges) if k < ev(m, nimp)],
                                                 'type': None if ev(m, tk) == 0 else {'err': ev(m, tk) == 2, 'range': [[ev(m, ts[0]), ev(m, ts[1])], [ev(m, te[0]), ev(m, te[1])]]}, 'p': [ev(m, p[0]), ev(m, p[1])]},
                lambda m: {'range': [[ev(m, gs[0]), ev(m, gs[1])], [ev(m, ge[0]), ev(m, ge[1])]] if ev(m, some) else None})
        qs.append(Query('lookup-finds-a-range-iff-some-range-contains-the-position', some != any_contains, ops=[op], world=world))
        qs.append(Query('returned-range-contains-the-position', z3.And(some, z3.Not(contains(gs, ge))), ops=[op], world=world))
        is_one_of = z3.Or([z3.And(z3.ULT(z3.BitVecVal(k, W64), nimp), gs[0] == ranges[k][0][0], gs[1] == ranges[k][0][1], ge[0] == ranges[k][1][0], ge[1] == ranges[k][1][1]) for k in range(K)] +
                          [z3.And(tk != 0, gs[0] == ts[0], gs[1] == ts[1], ge[0] == te[0], ge[1] == te[1])])
        qs.append(Query('returned-range-is-one-of-the-dependency-ranges', z3.And(some, z3.Not(is_one_of)), ops=[op], world=world))
        qs.append(Query('witness-found-through-type-resolution-only', z3.And(some, z3.Not(Or(z3.And(z3.ULT(z3.BitVecVal(k, W64), nimp), contains(*ranges[k])) for k in range(K)))), expect='sat', kind='witness', ops=[op], world=world))
    elif part == 'comment_range':
        L = z3.Function('line_of', z3.BitVecSort(W64), z3.BitVecSort(W64)); C = z3.Function('column_of', z3.BitVecSort(W64), z3.BitVecSort(W64))
        eng.cfg['line_col'] = (L, C)
        cs = sym.bv('comment_start', W64); rs = sym.bv('match_start', W64); re_ = sym.bv('match_end', W64); q = sym.bool('quoteless')
        lim = z3.BitVecVal(1 << 62, W64)
        pre = [z3.ULT(cs, lim), z3.ULT(rs, lim), z3.ULT(re_, lim), z3.ULE(rs, re_), z3.Or(q, z3.UGE(rs, 1))]
        name = [n for n in mir.fn_text if n.endswith('comment_source_to_position_range')][0]
        r = eng.call(name, [cs, Agg([rs, re_]), Opaque('text_info'), q], TRUE)
        start, end = r.f[0], r.f[1]
        pad = z3.If(q, z3.BitVecVal(0, W64), z3.BitVecVal(1, W64))
        es = cs + 2 + rs - pad; ee = cs + 2 + re_ + pad
        bad = z3.Or(start.f[0] != L(es), start.f[1] != C(es), end.f[0] != L(ee), end.f[1] != C(ee))
        # natively replayable subset: "\n"*ln + "/*" + "é"*m + "a"*a + "*/" + `// @deno-types="` + "é"*k + "x"*n + `"`, analysed through the public
        # ParserModuleAnalyzer (the regex puts the specifier at offset 14 of the comment text); L/C are then the text's real mapping
        ln, m_, a_, k_, n_ = [sym.bv(x, W64, lt=b) for x, b in (('rp_ln', 3), ('rp_m', 3), ('rp_a', 4), ('rp_k', 3), ('rp_n', 4))]
        realizable = [z3.Not(q), rs == 14, n_ != 0, re_ - rs == 2 * k_ + n_, cs == ln + 4 + 2 * m_ + a_,
                      L(es) == ln, L(ee) == ln, C(es) == es - ln - m_, C(ee) == ee - ln - m_ - k_]
        op = Op('analyze_pragma', lambda m: {'ln': ev(m, ln), 'm': ev(m, m_), 'a': ev(m, a_), 'k': ev(m, k_), 'n': ev(m, n_)},
                lambda m: {'range': [[ev(m, start.f[0]), ev(m, start.f[1])], [ev(m, end.f[0]), ev(m, end.f[1])]]})
        class FcWorld(JsonWorld): has_fc = True
        world = FcWorld(lambda m: {'positions': True})
        qs.append(Query('pragma-range-covers-exactly-the-specifier-with-its-quotes', z3.And(And(pre), bad), ops=[op], world=world, realizable=realizable))
        qs.append(Query('witness-multibyte-inside-and-before-the-specifier', z3.And(And(pre), k_ != 0, m_ != 0, ln != 0), expect='sat', kind='witness', ops=[op], world=world, realizable=realizable))
        qs.append(Query('offset-arithmetic-does-not-wrap', z3.And(And(pre), Or(g for l, g in eng.obligations))))
        eng.obligations = []
    elif part == 'v1_upgrade':
        # module_graph_1_to_2::analyze_deno_types: the @deno-types range of an old (v1) module info is rebuilt from the LAST leading
        # comment's start position and the pragma match inside its text; find_deno_types (a regex) is the environment: an arbitrary match
        K = 2
        found = sym.bool('pragma_found'); rs = sym.bv('match_start', W64); re_ = sym.bv('match_end', W64)
        def stub_find(eng_, c, a, g):
            m = Agg([{'text': StrV('spec'), 'range': Agg([rs, re_]), 'is_quoteless': FALSE}[f] for f in st['DenoTypesPragmaMatch']])
            return opt(found, m)
        import re as _re
        eng.cfg['stubs'] = [(_re.compile(r'find_deno_types'), stub_find)]
        ncom = [sym.bool(f'comment{k}_present') for k in range(K)]
        coms, cpos = [], []
        for k in range(K):
            (cs_, ce_), rv = prange(f'comment{k}')
            cpos.append((cs_, ce_))
            coms.append((ncom[k], Agg([{'text': StrV('comment text'), 'range': rv}[f] for f in st['Comment']])))
        lim = z3.BitVecVal(1 << 62, W64)
        pre = [z3.ULT(rs, lim), z3.ULT(re_, lim), z3.ULE(rs, re_), z3.UGE(rs, 1)] + [z3.ULT(c[0][1], lim) for c in cpos]
        name = mir.index[(None, None, 'analyze_deno_types')]
        r = eng.call(name, [ref_to(SeqV(coms), 'leading-comments')], TRUE)
        some = opt_is_some(r); sw = opt_payload(r)
        rng = sw.f[st['SpecifierWithRange'].index('range')]
        gs = (rng.f[0].f[0], rng.f[0].f[1]); ge = (rng.f[1].f[0], rng.f[1].f[1])
        # last present comment
        last_line, last_char, any_c = z3.BitVecVal(0, W64), z3.BitVecVal(0, W64), z3.BoolVal(False)
        for k in range(K):
            last_line = z3.If(ncom[k], cpos[k][0][0], last_line); last_char = z3.If(ncom[k], cpos[k][0][1], last_char); any_c = z3.Or(any_c, ncom[k])
        exp_some = z3.And(any_c, found)
        exp_s = (last_line, last_char + 2 + rs - 1); exp_e = (last_line, last_char + 2 + re_ + 1)
        bad = z3.Or(some != exp_some, z3.And(some, z3.Or(gs[0] != exp_s[0], gs[1] != exp_s[1], ge[0] != exp_e[0], ge[1] != exp_e[1])))
        def opj(m):
            comments = []
            n = ev(m, re_) - ev(m, rs)
            text = ' ' * (ev(m, rs) - 13) + '@deno-types="' + 'x' * n + '" trailing' if ev(m, found) else ' no pragma here'
            for k in range(K):
                if ev(m, ncom[k]):
                    last = all(not ev(m, ncom[j]) for j in range(k + 1, K))
                    comments.append({'text': text if last else ' other', 'range': [[ev(m, cpos[k][0][0]), ev(m, cpos[k][0][1])], [ev(m, cpos[k][1][0]), ev(m, cpos[k][1][1])]]})
            return {'comments': comments}
        def dec(m):
            if not ev(m, some): return {'range': None}
            return {'range': [[ev(m, gs[0]), ev(m, gs[1])], [ev(m, ge[0]), ev(m, ge[1])]]}
        op = Op('v1_upgrade', opj, dec)
        small = z3.BitVecVal(1 << 20, W64)
        realizable = [z3.UGE(rs, 13), z3.ULE(rs, 60), z3.UGT(re_, rs), z3.ULE(re_ - rs, 30)] + [z3.ULT(x, small) for c in cpos for p_ in c for x in p_]
        qs.append(Query('v1-deno-types-range-covers-the-quoted-specifier-on-the-comment-line', z3.And(And(pre), bad), ops=[op], world=world, realizable=realizable))
        qs.append(Query('witness-second-comment-used', z3.And(And(pre), some, ncom[0], ncom[1], z3.Or(cpos[0][0][0] != cpos[1][0][0], cpos[0][0][1] != cpos[1][0][1])), expect='sat', kind='witness', ops=[op], world=world, realizable=realizable))
        qs.append(Query('offset-arithmetic-does-not-wrap', z3.And(And(pre), Or(g for l, g in eng.obligations))))
        eng.obligations = []
    for fname in sorted({f for f, _ in eng.exceeded}):
        qs.insert(0, Query('unwinding:' + fname.split('>::')[-1], Or(gd for f, gd in eng.exceeded if f == fname), kind='unwind'))
    if part not in ('comment_range', 'v1_upgrade'): qs.insert(0, Query('model-capacity', Or(gd for _, gd in eng.obligations), kind='obligation'))
    qs.insert(0, Query('no-panic', Or(gd for _, gd in eng.panics)))
    return eng, world, list(sym.cons), qs

def run_cube_custom(mir, cube, tier, replay_dir):
    from .c20 import run_cube_custom as rc
    rec = rc(mir, cube, tier, replay_dir)
    rec['fns'] = ['graph::Position::cmp, graph::PositionRange::includes (compiled code, via Kani/CBMC)']
    return rec
