"""Shared check machinery: native replay, query running, cubes in parallel, evidence, known findings."""
import os, sys, json, time, subprocess, hashlib, tempfile, random
import z3

VERIF = os.path.dirname(os.path.dirname(os.path.abspath(__file__)))
REPO = os.environ.get('VERIF_REPO', '/repo')
CACHE = os.environ.get('VERIF_CACHE', os.path.join(VERIF, '.cache'))

class Inconclusive(Exception): pass

# ---------------------------------------------------------------- native replay
_replay_bin = {}
def build_replay(fast_check=False):
    """(re)build the replay binary against /repo's current working tree with the hooks enabled"""
    key = 'fc' if fast_check else 'plain'
    if key in _replay_bin: return _replay_bin[key]
    crate = os.path.join(VERIF, 'replay')
    lock_src = os.path.join(REPO, 'Cargo.lock')
    target = os.path.join(CACHE, 'replay-target-fc' if fast_check else 'replay-target')
    env = dict(os.environ, RUSTFLAGS='--cfg deno_graph_verif', CARGO_TARGET_DIR=target, CARGO_NET_OFFLINE='true')
    import fcntl
    os.makedirs(CACHE, exist_ok=True)
    with open(os.path.join(CACHE, 'replay-build.lock'), 'w') as lk:
        fcntl.flock(lk, fcntl.LOCK_EX)
        try:
            if os.path.realpath(REPO) != '/repo':
                # checks pointed at another checkout (VERIF_REPO): build a copy of the replay crate against that checkout
                import shutil
                alt = os.path.join(CACHE, 'replay-src')
                shutil.rmtree(alt, ignore_errors=True); shutil.copytree(crate, alt, ignore=shutil.ignore_patterns('target', 'Cargo.lock'))
                t = open(os.path.join(alt, 'Cargo.toml')).read().replace('path = "/repo"', f'path = "{os.path.realpath(REPO)}"')
                open(os.path.join(alt, 'Cargo.toml'), 'w').write(t); crate = alt
            lock_dst = os.path.join(crate, 'Cargo.lock')
            if not os.path.exists(lock_dst): 
                import shutil; shutil.copy(lock_src, lock_dst)
            cmd = ['cargo', 'build', '--offline', '--quiet'] + (['--features', 'fast_check'] if fast_check else [])
            r = subprocess.run(cmd, cwd=crate, env=env, stdout=subprocess.PIPE, stderr=subprocess.PIPE, text=True)
            if r.returncode != 0:
                # a stale lock file copy is the usual cause after /repo's dependencies change
                import shutil; shutil.copy(lock_src, lock_dst)
                r = subprocess.run(cmd, cwd=crate, env=env, stdout=subprocess.PIPE, stderr=subprocess.PIPE, text=True)
            if r.returncode != 0: raise Inconclusive('replay binary failed to build:\n' + r.stderr[-3000:])
        finally:
            fcntl.flock(lk, fcntl.LOCK_UN)
    _replay_bin[key] = os.path.join(target, 'debug', 'verif_replay')
    return _replay_bin[key]

def run_replay(payload, fast_check=False, keep=None):
    """payload: {'world':..,'ops':[..]} or {'cases':[..]} or {'packages':..}; returns parsed output"""
    exe = build_replay(fast_check)
    if keep:
        path = keep; os.makedirs(os.path.dirname(path), exist_ok=True)
        open(path, 'w').write(json.dumps(payload, indent=1))
    else:
        fd, path = tempfile.mkstemp(suffix='.json', dir=CACHE); os.close(fd)
        open(path, 'w').write(json.dumps(payload))
    try:
        r = subprocess.run([exe, path], stdout=subprocess.PIPE, stderr=subprocess.PIPE, text=True, timeout=600)
        if r.returncode != 0: raise Inconclusive('replay binary failed: ' + r.stderr[-2000:])
        return json.loads(r.stdout)
    finally:
        if not keep: os.remove(path)

# ---------------------------------------------------------------- queries
class Query:
    """One solver obligation. expect 'unsat' (property / unwinding / obligation) or 'sat' (vacuity witness).
    ops: operation objects whose results are replayed natively when a model is found."""
    def __init__(self, name, formula, expect='unsat', kind='property', ops=None, known=None, world=None, describe=None, realizable=None):
        self.name, self.formula, self.expect, self.kind = name, formula, expect, kind
        self.realizable = realizable   # extra constraints under which a model can be rebuilt as a native input
        self.ops, self.known, self.world, self.describe = ops or [], known or [], world, describe

def solver_for(base, timeout_ms):
    s = z3.Solver()
    s.set('timeout', int(timeout_ms))
    for c in base: s.add(c)
    return s

def check_formula(base, formula, timeout_ms):
    s = solver_for(base, timeout_ms)
    s.add(formula)
    t = time.time(); r = s.check(); dt = time.time() - t
    check_formula.last_solver = s
    return str(r), (s.model() if r == z3.sat else None), dt

def cross_check_cvc5(solver, timeout_s=120):
    """second opinion on an unsat verdict: the same assertions as SMT-LIB2 through cvc5 (thorough tier)"""
    import shutil
    exe = shutil.which('cvc5')
    if not exe: return 'unavailable'
    txt = '(set-logic ALL)\n' + solver.to_smt2()
    fd, path = tempfile.mkstemp(suffix='.smt2', dir=CACHE); os.close(fd)
    open(path, 'w').write(txt)
    try:
        r = subprocess.run([exe, '--lang', 'smt2', f'--tlimit={timeout_s * 1000}', path], stdout=subprocess.PIPE, stderr=subprocess.PIPE, text=True, timeout=timeout_s + 30)
        out = (r.stdout + r.stderr).strip()
        if 'Parse Error' in out: return 'not parsed by cvc5: ' + out[:120]
        if '(error' in out: return 'error: ' + out[:200]
        first = out.split('\n')[0].strip() if out else 'no answer'
        return first if first in ('sat', 'unsat', 'unknown') else ('timeout' if 'interrupted' in out or 'timeout' in out else 'no answer: ' + out[:120])
    except subprocess.TimeoutExpired:
        return 'timeout'
    finally:
        os.remove(path)

def normalize_real(op_json, real):
    """bring a replay output into the shape of the interpreter's decode()"""
    op = op_json['op']
    if op == 'walk': return [e[:2] + ([e[2]] if e[1] == 'redirect' else []) for e in real['entries']]
    if op == 'specifiers': return sorted(real['entries'])
    if op in ('prune_types', 'segment', 'add_redirect'):
        from .ops import normalize_graph_dump
        out = {'graph': normalize_graph_dump(real['graph'])}
        out['then'] = [normalize_real(sub, r) for sub, r in zip(op_json.get('then', []), real.get('then', []))]
        return out
    if op == 'analyze_pragma': return {'range': real.get('range')}
    if op == 'imported_exports_add':
        def nz(v): return None if v is None else {'kind': v['kind'], 'entries': sorted([[e[0], e[1]] for e in v['entries']], key=lambda e: e[0])}
        return {'after': nz(real['after']), 'delta': nz(real['delta'])}
    if op == 'errors':
        out = []
        for e in real['errors']:
            rid = e['rid'] or 0
            if e['cat'] == 'module' and e['kind'] != 'MissingDynamic': rid = 0
            out.append({'cat': e['cat'], 'specifier': e['specifier'] if e['specifier'] is not None else 255, 'rid': rid, 'kindname': e['kind']})
        return {'errors': out}
    if op in ('validate', 'valid'):
        if real.get('ok'): return {'ok': True}
        e = real['error']
        rid = e['rid'] or 0
        if e['cat'] == 'module' and e['kind'] != 'MissingDynamic': rid = 0
        return {'ok': False, 'error': {'cat': e['cat'], 'specifier': e['specifier'] if e['specifier'] is not None else 255, 'rid': rid, 'kindname': e['kind']}}
    return real
def normalize_decoded(op_json, d, mir=None):
    if op_json['op'] == 'errors':
        out = []
        for e in d['errors']:
            e = dict(e)
            if mir is not None:
                names = mir.enums['ModuleErrorKind'] if e['cat'] == 'module' else mir.enums['ResolutionError']
                e['kindname'] = names[e['kind']] if e['kind'] < len(names) else '?'
            e.pop('kind', None); out.append(e)
        return {'errors': out}
    if op_json['op'] in ('validate', 'valid') and not d.get('ok'):
        e = dict(d['error'])
        if mir is not None:
            names = mir.enums['ModuleErrorKind'] if e['cat'] == 'module' else mir.enums['ResolutionError']
            e['kindname'] = names[e['kind']] if e['kind'] < len(names) else '?'
        e.pop('kind', None)
        return {'ok': False, 'error': e}
    return d

def replay_model(query, model, mir, fast_check, keep_path=None):
    """replay the world + ops of a model natively; returns (matches, details)"""
    world = query.world.to_json(model)
    ops = [o.op_json(model) for o in query.ops]
    decoded = [normalize_decoded(oj, o.decode(model), mir) for oj, o in zip(ops, query.ops)]
    payload = {'world': world, 'ops': ops}
    out = run_replay(payload, fast_check=fast_check, keep=keep_path)
    reals = [normalize_real(oj, r) for oj, r in zip(ops, out['outputs'])]
    ok = all(d == r for d, r in zip(decoded, reals))
    return ok, {'world': world, 'ops': ops, 'interpreter': decoded, 'real': reals}

# ---------------------------------------------------------------- known findings
def load_known_findings(prop):
    path = os.path.join(VERIF, 'known_findings.jsonl')
    out = []
    if os.path.exists(path):
        for line in open(path):
            line = line.strip()
            if not line or line.startswith('#'): continue
            if line.startswith('fixed:'): continue
            e = json.loads(line)
            if e.get('property') == prop: out.append(e)
    return out

# ---------------------------------------------------------------- running a list of queries for one cube
def run_queries(base, queries, mir, timeout_ms, fast_check, prop, cube_name, known_entries, replay_dir):
    """returns dict with per-query records, violations, known hits, inconclusive reasons"""
    rec = {'cube': cube_name, 'queries': [], 'violations': [], 'known': [], 'inconclusive': [], 'replayed': 0, 'solver_s': 0.0}
    active = {e['signature']: e for e in known_entries}
    # engine obligations (unwinding assertions, model capacities, no-panic) are discharged together; only if the
    # disjunction is not unsat are they asked one by one, to name the failing one
    pre = [q for q in queries if q.kind in ('unwind', 'obligation') or q.name == 'no-panic']
    if len(pre) > 1:
        r, model, dt = check_formula(base, z3.Or([q.formula for q in pre]), timeout_ms)
        rec['solver_s'] += dt
        if r == 'unsat':
            for q in pre: rec['queries'].append({'name': q.name, 'kind': q.kind, 'expect': 'unsat', 'verdict': 'unsat', 'solver_s': round(dt / len(pre), 3), 'discharged_jointly': True})
            queries = [q for q in queries if q not in pre]
    for q in queries:
        listed = [k for k in q.known if k[0] in active]
        f = q.formula
        if listed and q.expect == 'unsat':
            f = z3.And(q.formula, *[z3.Not(k[1]) for k in listed])
        if q.expect == 'sat' and q.realizable is not None:
            f = z3.And(q.formula, *q.realizable)      # witnesses are asked for inside the natively replayable subset
        r, model, dt = check_formula(base, f, timeout_ms)
        rec['solver_s'] += dt
        qr = {'name': q.name, 'kind': q.kind, 'expect': q.expect, 'verdict': r, 'solver_s': round(dt, 3)}
        if listed: qr['excluding_known'] = [k[0] for k in listed]
        rec['queries'].append(qr)
        if r == 'unknown':
            rec['inconclusive'].append(f'{q.name}: solver timeout/unknown after {dt:.0f}s'); continue
        if r == 'unsat' and q.expect == 'unsat' and q.kind == 'property' and os.environ.get('VERIF_CROSS_SOLVER') == '1' and dt < 20:
            second = cross_check_cvc5(check_formula.last_solver)
            qr['cvc5'] = second
            if second == 'sat' or second.startswith('error'):
                rec['inconclusive'].append(f'{q.name}: z3 says unsat, cvc5 says {second}')
        if q.expect == 'sat':
            if r != 'sat': rec['inconclusive'].append(f'vacuity witness {q.name} is {r}: the harness does not reach what it claims to cover')
            elif q.ops:
                ok, det = replay_model(q, model, mir, fast_check); rec['replayed'] += 1
                qr['replay_matches'] = ok
                qr['sample'] = {'world': det['world'], 'ops': det['ops'][:2], 'real': det['real'][:2]}
                if not ok: rec['inconclusive'].append(f'witness {q.name}: interpreter and real crate disagree: ' + json.dumps(det)[:1500])
            continue
        if r == 'sat':
            if q.kind != 'property':
                rec['inconclusive'].append(f'{q.kind} obligation {q.name} is sat (bound too small or model limit reached)'); continue
            if q.realizable is not None:
                r3, m3, dt3 = check_formula(base, z3.And(f, *q.realizable), timeout_ms); rec['solver_s'] += dt3
                if r3 != 'sat':
                    rec['inconclusive'].append(f'{q.name}: the solver found a counterexample, but none inside the subset of inputs the native replay can rebuild ({r3}); model: ' + str(model)[:600]); continue
                model = m3
            if q.world is None or not q.ops:
                rec['inconclusive'].append(f'{q.name}: the solver found a counterexample but this obligation has no native replay; ' + (json.dumps(q.describe(model)) if q.describe else 'model: ' + str(model)[:800])); continue
            os.makedirs(replay_dir, exist_ok=True)
            path = os.path.join(replay_dir, f'{prop}_{cube_name}_{q.name}.json'.replace(' ', '_').replace('/', '_'))
            ok, det = replay_model(q, model, mir, fast_check, keep_path=path); rec['replayed'] += 1
            if ok:
                det['describe'] = q.describe(model) if q.describe else None
                open(path + '.report', 'w').write(json.dumps(det, indent=1))
                rec['violations'].append({'query': q.name, 'replay': path, 'detail': det})
            else:
                rec['inconclusive'].append(f'counterexample of {q.name} does not reproduce natively (encoding or model wrong): ' + json.dumps(det)[:1500])
        # known findings: confirm each still reproduces, report it, never fail on it
        for sig, kf in listed:
            r2, m2, dt2 = check_formula(base, z3.And(q.formula, kf), timeout_ms)
            rec['solver_s'] += dt2
            if r2 == 'sat' and (q.world is None or not q.ops):
                rec.setdefault('notes', []).append(f'known finding {sig}: the solver reproduces it on {q.name} (this obligation has no native replay; the finding is re-confirmed natively by the other cubes)')
            elif r2 == 'sat':
                ok, det = replay_model(q, m2, mir, fast_check); rec['replayed'] += 1
                if ok: rec['known'].append({'signature': sig, 'query': q.name, 'what': active[sig].get('what', ''), 'example': {'world': det['world'], 'ops': det['ops'], 'real': det['real']}})
                else: rec['inconclusive'].append(f'known finding {sig} / {q.name}: model does not reproduce natively: ' + json.dumps(det)[:1500])
            elif r2 == 'unknown': rec.setdefault('notes', []).append(f'known finding {sig} not re-confirmed through {q.name} in this run (solver timeout while searching inside the signature; the exclusion itself is unaffected)')
    return rec
