"""Shared check machinery: native replay, query running, cubes in parallel, evidence, known findings."""
import os, sys, json, time, subprocess, hashlib, tempfile, random
import z3

VERIF = os.path.dirname(os.path.dirname(os.path.abspath(__file__)))
REPO = os.environ.get('VERIF_REPO', '/repo')
CACHE = os.environ.get('VERIF_CACHE', os.path.join(VERIF, '.cache'))

class Inconclusive(Exception): pass

# ---------------------------------------------------------------- native replay
_replay_bin = {}
def build_replay(fast_check=False):
    """(re)build the replay binary against /repo's current working tree with the hooks enabled"""
    key = 'fc' if fast_check else 'plain'
    if key in _replay_bin: return _replay_bin[key]
    crate = os.path.join(VERIF, 'replay')
    lock_src = os.path.join(REPO, 'Cargo.lock')
    target = os.path.join(CACHE, 'replay-target-fc' if fast_check else 'replay-target')
    env = dict(os.environ, RUSTFLAGS='--cfg deno_graph_verif', CARGO_TARGET_DIR=target, CARGO_NET_OFFLINE='true')
    import fcntl
    os.makedirs(CACHE, exist_ok=True)
    with open(os.path.join(CACHE, f'replay-{key}.lock'), 'w') as lk:
        fcntl.flock(lk, fcntl.LOCK_EX)
        try:
            lock_dst = os.path.join(crate, 'Cargo.lock')
            if not os.path.exists(lock_dst): 
                import shutil; shutil.copy(lock_src, lock_dst)
            cmd = ['cargo', 'build', '--offline', '--quiet'] + (['--features', 'fast_check'] if fast_check else [])
            r = subprocess.run(cmd, cwd=crate, env=env, stdout=subprocess.PIPE, stderr=subprocess.PIPE, text=True)
            if r.returncode != 0:
                # a stale lock file copy is the usual cause after /repo's dependencies change
                import shutil; shutil.copy(lock_src, lock_dst)
                r = subprocess.run(cmd, cwd=crate, env=env, stdout=subprocess.PIPE, stderr=subprocess.PIPE, text=True)
            if r.returncode != 0: raise Inconclusive('replay binary failed to build:\n' + r.stderr[-3000:])
        finally:
            fcntl.flock(lk, fcntl.LOCK_UN)
    _replay_bin[key] = os.path.join(target, 'debug', 'verif_replay')
    return _replay_bin[key]

def run_replay(payload, fast_check=False, keep=None):
    """payload: {'world':..,'ops':[..]} or {'cases':[..]} or {'packages':..}; returns parsed output"""
    exe = build_replay(fast_check)
    if keep:
        path = keep; os.makedirs(os.path.dirname(path), exist_ok=True)
        open(path, 'w').write(json.dumps(payload, indent=1))
    else:
        fd, path = tempfile.mkstemp(suffix='.json', dir=CACHE); os.close(fd)
        open(path, 'w').write(json.dumps(payload))
    try:
        r = subprocess.run([exe, path], stdout=subprocess.PIPE, stderr=subprocess.PIPE, text=True, timeout=600)
        if r.returncode != 0: raise Inconclusive('replay binary failed: ' + r.stderr[-2000:])
        return json.loads(r.stdout)
    finally:
        if not keep: os.remove(path)
