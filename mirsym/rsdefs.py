"""Enum-variant and struct-field tables read from the Rust source of /repo (regenerated every run).

MIR refers to struct fields and enum variants by index; the indices follow declaration order
(cfg-gated items removed according to the feature set of the MIR dump). Reading them from the
source keeps the symbolic worlds and the `downcast` handling in step with the current tree.
"""
import re, os

def _strip_comments(s):
    out, i, n = [], 0, len(s)
    while i < n:
        if s.startswith('//', i):
            j = s.find('\n', i); i = n if j < 0 else j
        elif s.startswith('/*', i):
            j = s.find('*/', i + 2); i = n if j < 0 else j + 2
        elif s[i] == '"':
            j = i + 1
            while j < n and s[j] != '"':
                j += 2 if s[j] == '\\' else 1
            out.append('""'); i = j + 1
        elif s[i] == "'" and i + 2 < n and (s[i + 2] == "'" or (s[i + 1] == '\\' and s.find("'", i + 2) - i <= 5)):
            j = s.find("'", i + 2); out.append("' '"); i = j + 1
        else:
            out.append(s[i]); i += 1
    return ''.join(out)

def _match(s, i, open_c, close_c):
    depth = 0
    while i < len(s):
        c = s[i]
        if c == open_c: depth += 1
        elif c == close_c:
            depth -= 1
            if depth == 0: return i
        i += 1
    raise ValueError('unbalanced')

def _split_top(body):
    items, depth, cur = [], 0, ''
    for i, c in enumerate(body):
        if c in '([{<': depth += 1
        elif c in ')]}': depth -= 1
        elif c == '>' and body[i - 1] not in '-=': depth -= 1
        if c == ',' and depth == 0:
            items.append(cur); cur = ''
        else: cur += c
    if cur.strip(): items.append(cur)
    return items

def _cfg_ok(attrs, features):
    for a in attrs:
        m = re.match(r'cfg\((.*)\)$', a.strip(), re.S)
        if not m: continue
        c = m.group(1).strip()
        mm = re.fullmatch(r'feature\s*=\s*""', c)  # strings were blanked; fall back to raw
        if mm: return None
    return True

def parse_defs(src_dir, features):
    """returns (enums: name -> [variant names], structs: name -> [field names])"""
    enums, structs, ambiguous = {}, {}, set()
    qualified = {}
    for dirpath, _, files in os.walk(os.path.join(src_dir, 'src')):
        for f in sorted(files):
            if not f.endswith('.rs'): continue
            raw = open(os.path.join(dirpath, f)).read()
            # keep cfg feature strings: replace them by a marker before blanking strings
            raw = re.sub(r'#\[cfg\(feature\s*=\s*"([\w-]+)"\)\]', r'#[cfgfeat_\1]', raw)
            raw = re.sub(r'#\[cfg\(not\(feature\s*=\s*"([\w-]+)"\)\)\]', r'#[cfgnotfeat_\1]', raw)
            s = _strip_comments(raw)
            # drop `#[cfg(test)] mod x { .. }` blocks: their private helper types shadow the real definitions
            while True:
                mt = re.search(r'#\[cfg\(test\)\]\s*(?:pub(?:\([^)]*\))?\s+)?mod\s+\w+\s*\{', s)
                if not mt: break
                try: s = s[:mt.start()] + s[_match(s, mt.end() - 1, '{', '}') + 1:]
                except ValueError: s = s[:mt.start()]      # raw strings confuse the brace matcher; test modules end the file
            for m in re.finditer(r'\b(enum|struct)\s+(\w+)\s*(<[^{;(]*>)?\s*(where[^{;]*)?\{', s):
                kind, name = m.group(1), m.group(2)
                # item-level cfg: look back over attributes
                pre = s[max(0, m.start() - 400):m.start()]
                tail = re.search(r'((?:#\[[^\]]*\]\s*)*)(?:pub(?:\([^)]*\))?\s+)?$', pre)
                attrs = re.findall(r'#\[([^\]]*)\]', tail.group(1)) if tail else []
                if not _attrs_enabled(attrs, features): continue
                end = _match(s, m.end() - 1, '{', '}')
                body = s[m.end():end]
                names = []
                for item in _split_top(body):
                    item = item.strip()
                    if not item: continue
                    iattrs = re.findall(r'#\[((?:[^\[\]]|\[[^\]]*\])*)\]', item)
                    item2 = re.sub(r'#\[((?:[^\[\]]|\[[^\]]*\])*)\]', '', item).strip()
                    if not _attrs_enabled(iattrs, features): continue
                    if kind == 'enum':
                        mm = re.match(r'(\w+)', item2)
                    else:
                        mm = re.match(r'(?:pub(?:\([^)]*\))?\s+)?(\w+)\s*:', item2)
                    if mm: names.append(mm.group(1))
                qualified[(os.path.relpath(os.path.join(dirpath, f), src_dir), name)] = names
                table = enums if kind == 'enum' else structs
                if name in table and table[name] != names: ambiguous.add((kind, name))
                table.setdefault(name, names)
    for kind, name in ambiguous:
        (enums if kind == 'enum' else structs)[name] = None   # refuse to guess
    parse_defs.qualified = qualified
    return enums, structs

def _attrs_enabled(attrs, features):
    for a in attrs:
        a = a.strip()
        m = re.fullmatch(r'cfgfeat_([\w-]+)', a)
        if m and m.group(1) not in features: return False
        m = re.fullmatch(r'cfgnotfeat_([\w-]+)', a)
        if m and m.group(1) in features: return False
        if re.match(r'cfg\(\s*test\s*\)', a): return False
        if re.match(r'cfg\(\s*deno_graph_verif\s*\)', a): return False
    return True

# enums defined outside the crate (hard-wired; checked by the differential validation)
EXTERNAL_ENUMS = {
    'Option': ['None', 'Some'], 'Result': ['Ok', 'Err'], 'ControlFlow': ['Continue', 'Break'],
    'Poll': ['Ready', 'Pending'], 'Entry': ['Occupied', 'Vacant'], 'Ordering': ['Less', 'Equal', 'Greater'], 'Cow': ['Borrowed', 'Owned'],
    'MediaType': ['JavaScript', 'Jsx', 'Mjs', 'Cjs', 'TypeScript', 'Mts', 'Cts', 'Dts', 'Dmts', 'Dcts', 'Tsx',
                  'Css', 'Json', 'Jsonc', 'Json5', 'Markdown', 'Html', 'Sql', 'Wasm', 'SourceMap', 'Unknown'],
    'DecodedArcSourceDetailKind': ['Unchanged', 'Changed', 'OnlyUtf8Bom'],
}

def feature_closure(cargo_toml, default=True):
    txt = open(cargo_toml).read()
    m = re.search(r'\[features\](.*?)(?:\n\[|\Z)', txt, re.S)
    table = {}
    for line in m.group(1).strip().split('\n'):
        mm = re.match(r'([\w-]+)\s*=\s*\[(.*)\]', line.strip())
        if mm: table[mm.group(1)] = [x.strip().strip('"') for x in mm.group(2).split(',') if x.strip()]
    feats, todo = set(), (['default'] if default else [])
    while todo:
        f = todo.pop()
        if f in feats or '/' in f: continue
        feats.add(f); todo += table.get(f, [])
    return feats

# explicit discriminants (variant index otherwise); Ordering is repr(i8) with Less = -1
EXPLICIT_DISCRIMINANTS = {'Ordering': {'Less': 255, 'Equal': 0, 'Greater': 1}}
