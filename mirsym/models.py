"""Environment models: out-of-crate callees (std / indexmap / url / log) over finite universes.

Every model is part of the trusted base of a claim; the names of the models a run used are written
to its evidence file. Containers are immutable functional values; references into them are guarded
place sets. Keys of Url-keyed containers range over the finite specifier universe 0..N-1.
"""
import re, z3
from .engine import *

def R(p): return re.compile(p)

# ------------------------------------------------------------------ container values
class MapModel:
    """BTreeMap<Url, V> over the url-id universe: presence bit + value per key (iteration = id order)"""
    def __init__(self, present, vals): self.present, self.vals = list(present), list(vals)
    def merge(self, g, o): return MapModel([IF(g, a, b) for a, b in zip(self.present, o.present)], [ite(g, a, b) for a, b in zip(self.vals, o.vals)])
    def slot(self, i): return self.vals[i]
    def with_slot(self, i, v): vs = list(self.vals); vs[i] = v; return MapModel(self.present, vs)
    def count(self, W):
        return bvsum([IF(p, BV(1, W), BV(0, W)) for p in self.present], W)
    @staticmethod
    def empty(n): return MapModel([FALSE] * n, [None] * n)

class SlotMap:
    """IndexMap<K, V> with a fixed number of slots in insertion order: presence, key, value per slot"""
    def __init__(self, present, keys, vals): self.present, self.keys, self.vals = list(present), list(keys), list(vals)
    def merge(self, g, o):
        a, b = self, o
        n = max(len(a.present), len(b.present))
        def pad(m): return SlotMap(m.present + [FALSE] * (n - len(m.present)), m.keys + [None] * (n - len(m.keys)), m.vals + [None] * (n - len(m.vals)))
        a, b = pad(a), pad(b)
        return SlotMap([IF(g, x, y) for x, y in zip(a.present, b.present)], [ite(g, x, y) for x, y in zip(a.keys, b.keys)], [ite(g, x, y) for x, y in zip(a.vals, b.vals)])
    def slot(self, i): return self.vals[i] if i < len(self.vals) else None
    def with_slot(self, i, v): vs = list(self.vals); vs[i] = v; return SlotMap(self.present, self.keys, vs)
    def count(self, W): return bvsum([IF(p, BV(1, W), BV(0, W)) for p in self.present], W)
    @staticmethod
    def empty(n=0): return SlotMap([FALSE] * n, [None] * n, [None] * n)

class SetModel:
    """HashSet<&Url> / HashSet<Url>: membership bit per id + explicit size counter"""
    def __init__(self, mem, count): self.mem, self.count = list(mem), count
    def merge(self, g, o): return SetModel([IF(g, a, b) for a, b in zip(self.mem, o.mem)], IF(g, self.count, o.count))

class OrdSetModel:
    """IndexSet<Url> / IndexSet<&Url>: insertion-ordered ids + membership bits"""
    def __init__(self, items, ln, mem): self.items, self.len, self.mem = list(items), ln, list(mem)
    def merge(self, g, o): return OrdSetModel([IF(g, a, b) for a, b in zip(self.items, o.items)], IF(g, self.len, o.len), [IF(g, a, b) for a, b in zip(self.mem, o.mem)])

class DequeModel:
    def __init__(self, items, ln): self.items, self.len = list(items), ln
    def merge(self, g, o): return DequeModel([IF(g, a, b) for a, b in zip(self.items, o.items)], IF(g, self.len, o.len))

class VecModel:
    def __init__(self, items, ln): self.items, self.len = list(items), ln
    def merge(self, g, o): return VecModel([ite(g, a, b) for a, b in zip(self.items, o.items)], IF(g, self.len, o.len))
    def slot(self, i): return self.items[i]
    def with_slot(self, i, v): it = list(self.items); it[i] = v; return VecModel(it, self.len)
    def index_len(self): return len(self.items)
    def length(self, eng): return self.len

class SeqV:
    """slice / guarded sequence of values (a subset in a fixed order)"""
    def __init__(self, items): self.items = list(items)   # [(guard, value)]
    def merge(self, g, o): return SeqV([(IF(g, a[0], b[0]), ite(g, a[1], b[1])) for a, b in zip(self.items, o.items)])

class IterModel:
    """guarded sequence with per-item consumed bits"""
    def __init__(self, items, consumed=None): self.items = list(items); self.consumed = consumed or [FALSE] * len(self.items)
    def merge(self, g, o):
        a, b = self, o
        n = max(len(a.items), len(b.items))
        pad = lambda it: IterModel(it.items + [(FALSE, None)] * (n - len(it.items)), it.consumed + [FALSE] * (n - len(it.items)))
        a, b = pad(a), pad(b)
        return IterModel([(IF(g, x[0], y[0]), ite(g, x[1], y[1])) for x, y in zip(a.items, b.items)], [IF(g, x, y) for x, y in zip(a.consumed, b.consumed)])
    def remaining(self): return [(AND(av, NOT(cn)), v) for (av, v), cn in zip(self.items, self.consumed)]

class SchemeV:
    """result of Url::scheme(): code into SCHEMES"""
    def __init__(self, code): self.code = code
    def merge(self, g, o): return SchemeV(IF(g, self.code, o.code))
SCHEMES = ['https', 'http', 'file', 'data', 'npm', 'jsr', 'node', 'blob', 'other']

def bvsum(xs, W):
    acc = BV(0, W)
    for x in xs:
        if z3.is_bv_value(x) and x.as_long() == 0: continue
        acc = ADD(acc, x)
    return acc

# ------------------------------------------------------------------ helpers
def some(v): return EnumV(1, {1: Agg([v]), 0: Agg([])})
def none(): return EnumV(0, {0: Agg([])})
def opt(cond, v):
    if v is None: return none()
    return EnumV(IF(cond, BV(1, 8), BV(0, 8)), {1: Agg([v]), 0: Agg([])})
def opt_is_some(o): return o.is_variant(1)
def opt_payload(o): return o.vars[1].f[0] if 1 in o.vars and o.vars[1].f else None

def deref_val(eng, x):
    return eng.load(x) if isinstance(x, Ptr) else x
def uid(eng, ref):
    v = ref
    while isinstance(v, Ptr): v = eng.load(v)
    if not isinstance(v, UrlV): raise Unsupported(f'expected Url, got {v!r}')
    return v.id
def textid(eng, ref):
    v = ref
    while isinstance(v, Ptr): v = eng.load(v)
    return v
def N_(eng): return eng.cfg['N']
def containers(eng, ptr):
    """(cond, place, value) for each target of a pointer to a container"""
    if not isinstance(ptr, Ptr): raise Unsupported(f'container receiver is not a pointer: {ptr!r}')
    out = []
    for c, pl in ptr.targets:
        v = eng.read(pl)
        if v is None or isinstance(v, Opaque): continue
        out.append((c, pl, v))
    return out
def onehot_sel(u, n):
    return [EQ(u, BV(i, u.size())) for i in range(n)]

# ------------------------------------------------------------------ HashSet
def set_with_capacity(eng, c, a, g): return SetModel([FALSE] * N_(eng), BV(0, eng.W))
def set_insert(eng, c, a, g):
    s = eng.load(a[0]); u = uid(eng, a[1]); sel = onehot_sel(u, N_(eng))
    was = OR(*[AND(sel[i], s.mem[i]) for i in range(N_(eng))])
    ns = SetModel([OR(s.mem[i], sel[i]) for i in range(N_(eng))], IF(was, s.count, ADD(s.count, 1)))
    eng.store(a[0], ns, g)
    return NOT(was)
def set_contains(eng, c, a, g):
    s = eng.load(a[0]); u = uid(eng, a[1]); sel = onehot_sel(u, N_(eng))
    return OR(*[AND(sel[i], s.mem[i]) for i in range(N_(eng))])
def set_len(eng, c, a, g): return eng.load(a[0]).count

# ------------------------------------------------------------------ IndexSet
def oset_new(eng, c, a, g):
    n = N_(eng); return OrdSetModel([BV(0, 8)] * n, BV(0, eng.W), [FALSE] * n)
def oset_insert_val(eng, s, u, g):
    n = N_(eng); sel = onehot_sel(u, n)
    was = OR(*[AND(sel[i], s.mem[i]) for i in range(n)])
    add = NOT(was)
    items = [IF(AND(add, EQ(s.len, BV(i, eng.W))), u, s.items[i]) for i in range(n)]
    return OrdSetModel(items, IF(add, ADD(s.len, 1), s.len), [OR(s.mem[i], sel[i]) for i in range(n)]), add
def oset_insert(eng, c, a, g):
    s = eng.load(a[0]); u = uid(eng, a[1])
    ns, added = oset_insert_val(eng, s, u, g)
    eng.store(a[0], ns, g); return added
def oset_contains(eng, c, a, g):
    r = FALSE
    u = uid(eng, a[1])
    for cnd, pl, s in containers(eng, a[0]):
        sel = onehot_sel(u, N_(eng))
        r = OR(r, AND(cnd, OR(*[AND(sel[i], s.mem[i]) for i in range(N_(eng))])))
    return r
def oset_get_index(eng, c, a, g):
    s = eng.load(a[0]); i = a[1]
    u = BV(0, 8)
    for k in range(len(s.items)): u = IF(EQ(i, BV(k, i.size())), s.items[k], u)
    return opt(ULT(i, s.len), url_ref(u))
def oset_iter(eng, c, a, g):
    byref = bool(re.match(r'IndexSet::<&', c))
    items = []
    for cnd, pl, s in containers(eng, a[0]):
        for k in range(len(s.items)):
            r = url_ref(s.items[k])
            items.append((AND(cnd, ULT(BV(k, eng.W), s.len)), ref_to(r, 'ref-elem') if byref else r))
    return IterModel(items)
def oset_extend(eng, c, a, g):
    s = eng.load(a[0]); it = a[1]
    for av, v in it.remaining():
        if v is None or z3.is_false(av): continue
        ns, _ = oset_insert_val(eng, s, uid(eng, v), g)
        s = ns.merge(av, s)
    eng.store(a[0], s, g); return UNIT
def oset_collect(eng, c, a, g):
    s = oset_new(eng, c, a, g)
    for av, v in a[0].remaining():
        if v is None or z3.is_false(av): continue
        ns, _ = oset_insert_val(eng, s, uid(eng, v), g)
        s = ns.merge(av, s)
    return s
def oset_len(eng, c, a, g): return eng.load(a[0]).len

# ------------------------------------------------------------------ VecDeque<&Url>
def dq_new(eng, c, a, g): return DequeModel([BV(0, 8)] * eng.cfg['DQ'], BV(0, eng.W))
def dq_push_back(eng, c, a, g):
    d = eng.load(a[0]); u = uid(eng, a[1]); cap = len(d.items)
    eng.obligations.append(('deque model capacity', AND(g, EQ(d.len, BV(cap, eng.W)))))
    eng.store(a[0], DequeModel([IF(EQ(d.len, BV(i, eng.W)), u, d.items[i]) for i in range(cap)], ADD(d.len, 1)), g)
    return UNIT
def dq_push_front(eng, c, a, g):
    d = eng.load(a[0]); u = uid(eng, a[1]); cap = len(d.items)
    eng.obligations.append(('deque model capacity', AND(g, EQ(d.len, BV(cap, eng.W)))))
    eng.store(a[0], DequeModel([u] + d.items[:-1], ADD(d.len, 1)), g)
    return UNIT
def dq_pop_front(eng, c, a, g):
    d = eng.load(a[0])
    nonempty = NOT(EQ(d.len, BV(0, eng.W)))
    eng.store(a[0], DequeModel(d.items[1:] + [BV(0, 8)], IF(nonempty, SUB(d.len, 1), d.len)), g)
    return opt(nonempty, url_ref(d.items[0]))

# ------------------------------------------------------------------ Vec
def vec_new(eng, c, a, g):
    cap = eng.cfg.get('VEC', 4)
    m = re.search(r'Vec::<(.*)>::|<Vec<(.*)> as', c)
    return VecModel([None] * cap, BV(0, eng.W))
def vec_push(eng, c, a, g):
    v = eng.load(a[0]); cap = len(v.items)
    eng.obligations.append(('vec model capacity', AND(g, EQ(v.len, BV(cap, eng.W)))))
    eng.store(a[0], VecModel([ite(EQ(v.len, BV(i, eng.W)), a[1], v.items[i]) for i in range(cap)], ADD(v.len, 1)), g)
    return UNIT
def vec_pop(eng, c, a, g):
    v = eng.load(a[0]); cap = len(v.items)
    nonempty = NOT(EQ(v.len, BV(0, eng.W)))
    val = None
    for i in range(cap):
        if v.items[i] is None: continue
        val = v.items[i] if val is None else ite(EQ(v.len, BV(i + 1, eng.W)), v.items[i], val)
    eng.store(a[0], VecModel(v.items, IF(nonempty, SUB(v.len, 1), v.len)), g)
    return opt(nonempty, val)
def vec_is_empty(eng, c, a, g): return EQ(eng.load(a[0]).len, BV(0, eng.W))
def vec_len(eng, c, a, g): return eng.load(a[0]).len
def vec_into_iter(eng, c, a, g):
    v = a[0]
    return IterModel([(ULT(BV(i, eng.W), v.len), v.items[i]) for i in range(len(v.items)) if v.items[i] is not None])
def slice_iter(eng, c, a, g):
    items = []
    for cnd, pl, s in containers(eng, a[0]):
        if isinstance(s, SeqV):
            for k, (gk, v) in enumerate(s.items): items.append((AND(cnd, gk), ref_to(v, 'slice-elem')))
        elif isinstance(s, VecModel):
            for k in range(len(s.items)):
                if s.items[k] is not None: items.append((AND(cnd, ULT(BV(k, eng.W), s.len)), Ptr([(TRUE, (pl[0], pl[1] + (('k', k),)))])))
        elif isinstance(s, Agg):
            for k in range(len(s.f)): items.append((cnd, Ptr([(TRUE, (pl[0], pl[1] + (('f', k),)))])))
        else: raise Unsupported(f'slice iter over {s!r}')
    return IterModel(items)

# ------------------------------------------------------------------ iterators (eager adaptors; closures in this code are pure)
def iter_identity(eng, c, a, g): return a[0]
def iter_next(eng, c, a, g):
    it = eng.load(a[0])
    if not isinstance(it, IterModel): raise Unsupported(f'Iterator::next on {it!r} ({c})')
    avail = [x for x, _ in it.remaining()]
    sel, before = [], FALSE
    for x in avail:
        sel.append(AND(x, NOT(before))); before = OR(before, x)
    val = None
    for s, (_, v) in zip(sel, it.items):
        if v is None: continue
        val = v if val is None else ite(s, v, val)
    eng.store(a[0], IterModel(it.items, [OR(cn, s) for cn, s in zip(it.consumed, sel)]), g)
    if val is None: return none()
    return opt(before, val)
def iter_rev(eng, c, a, g): return IterModel(a[0].items[::-1], a[0].consumed[::-1])
def iter_load_items(eng, c, a, g):   # copied / cloned
    return IterModel([(av, eng.load(v) if isinstance(v, Ptr) else v) for av, v in a[0].items], a[0].consumed)
def iter_map(eng, c, a, g):
    it, clo = a[0], a[1]
    return IterModel([(av, eng.call_closure(clo, [v], AND(g, av)) if (v is not None and not z3.is_false(AND(g, av))) else None) for av, v in it.items], it.consumed)
def iter_filter_map(eng, c, a, g):
    it, clo = a[0], a[1]
    items = []
    for av, v in it.items:
        if v is None or z3.is_false(AND(g, av)): items.append((FALSE, None)); continue
        r = eng.call_closure(clo, [v], AND(g, av))
        items.append((AND(av, opt_is_some(r)), opt_payload(r)))
    return IterModel(items, it.consumed)
def iter_chain(eng, c, a, g):
    a1 = a[1] if isinstance(a[1], IterModel) else as_iter(eng, a[1])
    return IterModel(a[0].items + a1.items, a[0].consumed + a1.consumed)
def iter_all(eng, c, a, g):
    it = eng.load(a[0]); clo = a[1]
    r = TRUE
    for av, v in it.remaining():
        if v is None or z3.is_false(av): continue
        r = AND(r, OR(NOT(av), eng.call_closure(clo, [v], AND(g, av))))
    return r
def iter_flat_map(eng, c, a, g):
    outer, clo = a[0], a[1]
    items = []
    for av, v in outer.items:
        if v is None or z3.is_false(AND(g, av)): continue
        inner = eng.call_closure(clo, [v], AND(g, av))
        if isinstance(inner, Ptr): inner = slotmap_iter(eng, c, [inner], g)
        if not isinstance(inner, IterModel): raise Unsupported(f'flat_map inner {inner!r}')
        items += [(AND(av, x), y) for x, y in inner.items]
    return IterModel(items)

# ------------------------------------------------------------------ IndexMap<K, V> (SlotMap)
def key_match(eng, key, k):
    key = as_key(eng, key); k = as_key(eng, k)
    if isinstance(key, UrlV) and isinstance(k, UrlV): return EQ(key.id, k.id)
    if isinstance(key, TextV) and isinstance(k, TextV): return EQ(key.id, k.id)
    if isinstance(key, StrV) and isinstance(k, StrV): return z3.BoolVal(key.s == k.s)
    if isinstance(key, (StrV, TextV)) and isinstance(k, (StrV, TextV)): return FALSE
    raise Unsupported(f'key match {key!r} / {k!r}')
def slotmap_refs(eng, ptr, keys=False, pairs=False):
    items = []
    for cnd, (r, p), m in containers(eng, ptr):
        for i in range(len(m.present)):
            vref = Ptr([(TRUE, (r, p + (('k', i),)))])
            kref = ref_to(m.keys[i], 'map-key') if m.keys[i] is not None else Opaque('key')
            items.append((AND(cnd, m.present[i]), Agg([kref, vref]) if pairs else (kref if keys else vref)))
    return items
def slotmap_values(eng, c, a, g): return IterModel(slotmap_refs(eng, a[0]))
def slotmap_iter(eng, c, a, g): return IterModel(slotmap_refs(eng, a[0], pairs=True))
def slotmap_get(eng, c, a, g):
    found, refs = FALSE, []
    for cnd, (r, p), m in containers(eng, a[0]):
        for i in range(len(m.present)):
            if m.keys[i] is None: continue
            hit = AND(cnd, m.present[i], key_match(eng, a[1], m.keys[i]))
            found = OR(found, hit)
            refs.append((hit, (r, p + (('k', i),))))
    return opt(found, Ptr(refs))
def slotmap_len(eng, c, a, g):
    r = BV(0, eng.W)
    for cnd, pl, m in containers(eng, a[0]): r = IF(cnd, m.count(eng.W), r)
    return r
def slotmap_clear(eng, c, a, g):
    for cnd, pl, m in containers(eng, a[0]):
        eng.write(pl, SlotMap([FALSE] * len(m.present), m.keys, m.vals), AND(g, cnd))
    return UNIT
def slotmap_default(eng, c, a, g): return SlotMap.empty(0)
def slotmap_is_empty(eng, c, a, g): return EQ(slotmap_len(eng, c, a, g), BV(0, eng.W))

# ------------------------------------------------------------------ BTreeMap<Url, V> (MapModel)
def map_lookup(eng, ptr, key):
    u = uid(eng, key)
    found, refs = FALSE, []
    for cnd, (r, p), m in containers(eng, ptr):
        sel = onehot_sel(u, len(m.present))
        for i in range(len(m.present)):
            hit = AND(cnd, sel[i])
            found = OR(found, AND(hit, m.present[i]))
            refs.append((hit, (r, p + (('k', i),))))
    return u, found, Ptr(refs)
def map_get(eng, c, a, g):
    u, found, vref = map_lookup(eng, a[0], a[1]); return opt(found, vref)
def map_get_key_value(eng, c, a, g):
    u, found, vref = map_lookup(eng, a[0], a[1]); return opt(found, Agg([url_ref(u), vref]))
def map_contains_key(eng, c, a, g): return map_lookup(eng, a[0], a[1])[1]
def map_len(eng, c, a, g):
    r = BV(0, eng.W)
    for cnd, pl, m in containers(eng, a[0]): r = IF(cnd, m.count(eng.W), r)
    return r
def map_default(eng, c, a, g): return MapModel.empty(N_(eng))
def map_insert(eng, c, a, g):
    u = uid(eng, a[1]); old = None; was = FALSE
    for cnd, pl, m in containers(eng, a[0]):
        sel = onehot_sel(u, len(m.present))
        for i in range(len(m.present)):
            was = OR(was, AND(cnd, sel[i], m.present[i]))
            if m.vals[i] is not None: old = m.vals[i] if old is None else ite(AND(cnd, sel[i]), m.vals[i], old)
        nm = MapModel([OR(m.present[i], sel[i]) for i in range(len(m.present))], [ite(sel[i], a[2], m.vals[i]) for i in range(len(m.present))])
        eng.write(pl, nm, AND(g, cnd))
    return opt(was, old)
def map_remove(eng, c, a, g):
    u = uid(eng, a[1]); old = None; was = FALSE
    for cnd, pl, m in containers(eng, a[0]):
        sel = onehot_sel(u, len(m.present))
        for i in range(len(m.present)):
            was = OR(was, AND(cnd, sel[i], m.present[i]))
            if m.vals[i] is not None: old = m.vals[i] if old is None else ite(AND(cnd, sel[i]), m.vals[i], old)
        eng.write(pl, MapModel([AND(m.present[i], NOT(sel[i])) for i in range(len(m.present))], m.vals), AND(g, cnd))
    return opt(was, old)
def map_iter(eng, c, a, g):
    items = []
    for cnd, (r, p), m in containers(eng, a[0]):
        for i in range(len(m.present)):
            items.append((AND(cnd, m.present[i]), Agg([url_ref(BV(i, 8)), Ptr([(TRUE, (r, p + (('k', i),)))])])))
    return IterModel(items)
def map_values(eng, c, a, g):
    it = map_iter(eng, c, a, g); return IterModel([(av, v.f[1]) for av, v in it.items])
def map_keys(eng, c, a, g):
    it = map_iter(eng, c, a, g); return IterModel([(av, v.f[0]) for av, v in it.items])
def map_retain(eng, c, a, g):
    clo = a[1]
    for cnd, (r, p), m in containers(eng, a[0]):
        keep = []
        for i in range(len(m.present)):
            gi = AND(g, cnd, m.present[i])
            if z3.is_false(gi): keep.append(m.present[i]); continue
            k = eng.call_closure(clo, [url_ref(BV(i, 8)), Ptr([(TRUE, (r, p + (('k', i),)))])], gi)
            keep.append(AND(m.present[i], k))
        m2 = eng.read((r, p))   # the closure may have written through the value reference
        eng.write((r, p), MapModel(keep, m2.vals), AND(g, cnd))
    return UNIT

# ------------------------------------------------------------------ Option / Result / Try
def option_take(eng, c, a, g):
    v = eng.load(a[0]); eng.store(a[0], none(), g); return v
def option_as_ref(eng, c, a, g):
    if not isinstance(a[0], Ptr): return a[0]
    v = eng.load(a[0])
    ref = Ptr([(cnd, (r, p + (('v', 1), ('f', 0)))) for cnd, (r, p) in a[0].targets])
    return EnumV(v.tag, {1: Agg([ref]), 0: Agg([])})
def option_map(eng, c, a, g):
    o, clo = a[0], a[1]
    is_some = opt_is_some(o); p = opt_payload(o)
    if z3.is_false(is_some) or p is None: return none()
    r = eng.call_closure(clo, [p], AND(g, is_some))
    return EnumV(o.tag, {1: Agg([r]), 0: Agg([])})
def option_and_then(eng, c, a, g):
    o, clo = a[0], a[1]
    is_some = opt_is_some(o); p = opt_payload(o)
    if z3.is_false(is_some) or p is None: return none()
    r = eng.call_closure(clo, [p], AND(g, is_some))
    return ite(is_some, r, none())
def option_or_else(eng, c, a, g):
    o, clo = a[0], a[1]
    is_some = opt_is_some(o)
    if z3.is_true(is_some): return o
    r = eng.call_closure(clo, [], AND(g, NOT(is_some)))
    return ite(is_some, o, r)
def option_is_some_and(eng, c, a, g):
    o, clo = a[0], a[1]
    is_some = opt_is_some(o); p = opt_payload(o)
    if z3.is_false(is_some) or p is None: return FALSE
    return AND(is_some, eng.call_closure(clo, [p], AND(g, is_some)))
def option_is_some(eng, c, a, g): return opt_is_some(deref_val(eng, a[0]))
def option_is_none(eng, c, a, g): return NOT(opt_is_some(deref_val(eng, a[0])))
def option_cloned(eng, c, a, g):
    o = a[0]; p = opt_payload(o)
    if p is None: return none()
    return EnumV(o.tag, {1: Agg([eng.load(p) if isinstance(p, Ptr) else p]), 0: Agg([])})
def option_unwrap(eng, c, a, g):
    o = a[0]
    eng.panics.append((f'unwrap on None ({c[:40]})', AND(g, NOT(opt_is_some(o)))))
    return opt_payload(o)
def option_unwrap_or_default(eng, c, a, g):
    raise Unsupported('unwrap_or_default: ' + c)
def try_branch_option(eng, c, a, g):
    o = a[0]
    return EnumV(IF(opt_is_some(o), BV(0, 8), BV(1, 8)), {0: Agg([opt_payload(o)]), 1: Agg([none()])})
def from_residual_none(eng, c, a, g): return none()
def try_branch_result(eng, c, a, g):
    r = a[0]   # Ok=0 -> Continue(v)=0 ; Err=1 -> Break(Err(e))=1
    okp = r.vars[0].f[0] if 0 in r.vars and r.vars[0].f else None
    return EnumV(r.tag, {0: Agg([okp]), 1: Agg([EnumV(1, {1: r.vars.get(1, Agg([]))})])})
def from_residual_result(eng, c, a, g):
    r = a[0]
    return EnumV(1, {1: r.vars.get(1, Agg([]))})

# ------------------------------------------------------------------ Clone / Default / Box / misc
def clone_value(eng, c, a, g): return eng.load(a[0]) if isinstance(a[0], Ptr) else a[0]
def clone_from(eng, c, a, g):
    eng.store(a[0], eng.load(a[1]), g); return UNIT
def opaque_default(eng, c, a, g): return Opaque('default ' + c[:40])
def closure_call(eng, c, a, g):
    args = a[1].f if isinstance(a[1], Agg) else [a[1]]
    cv = a[0]
    while isinstance(cv, Ptr): cv = eng.load(cv)
    if cv is None:   # zero-sized closure: never materialised in MIR, identified by its type
        cv = ClosureV(re.match(r'<\{closure@([^}]*)\}', c).group(1), Agg([]))
    return eng.call_closure(cv, list(args), g)
def box_new(eng, c, a, g): return BoxV(a[0])
def drop_noop(eng, c, a, g): return UNIT
def enum_eq(eng, c, a, g):
    x, y = deref_val(eng, a[0]), deref_val(eng, a[1])
    return EQ(x.tag, y.tag)
def once_lock_empty(eng, c, a, g):
    if 'empty_deps' not in eng.cfg: eng.cfg['empty_deps'] = Root(SlotMap.empty(0), 'EMPTY_DEPS')
    return Ptr([(TRUE, (eng.cfg['empty_deps'], ()))])
class CheckJsV:
    """a `&dyn CheckJsResolver`: an arbitrary predicate over the specifier universe"""
    def __init__(self, bits): self.bits = list(bits)
    def merge(self, g, o): return CheckJsV([IF(g, a, b) for a, b in zip(self.bits, o.bits)])
def check_js_custom(eng, c, a, g):
    u = uid(eng, a[1]); r = FALSE
    obj = a[0]
    while isinstance(obj, Ptr): obj = eng.load(obj)
    bits = obj.bits if isinstance(obj, CheckJsV) else eng.cfg['checkjs']
    for i in range(N_(eng)): r = IF(EQ(u, BV(i, 8)), bits[i], r)
    return r
def log_off(eng, c, a, g): return FALSE
def log_opaque(eng, c, a, g): return Opaque('log')

def url_scheme(eng, c, a, g):
    u = uid(eng, a[0]); sch = eng.cfg['scheme']
    code = BV(len(SCHEMES) - 1, 8)
    for i in range(len(sch)): code = IF(EQ(u, BV(i, 8)), sch[i], code)
    return ref_to(SchemeV(code), 'scheme')
def str_eq(eng, c, a, g):
    x, y = a[0], a[1]
    while isinstance(x, Ptr): x = eng.load(x)
    while isinstance(y, Ptr): y = eng.load(y)
    if isinstance(y, SchemeV): x, y = y, x
    if isinstance(x, SchemeV) and isinstance(y, StrV):
        return EQ(x.code, BV(SCHEMES.index(y.s), 8)) if y.s in SCHEMES[:-1] else FALSE
    if isinstance(x, SchemeV) and isinstance(y, SchemeV):
        return AND(EQ(x.code, y.code), NOT(EQ(x.code, BV(len(SCHEMES) - 1, 8))))
    if isinstance(x, StrV) and isinstance(y, StrV): return z3.BoolVal(x.s == y.s)
    if isinstance(x, TextV) and isinstance(y, TextV) and x.lower == y.lower: return EQ(x.id, y.id)
    raise Unsupported(f'str eq {x!r} / {y!r}')
def str_to_lowercase(eng, c, a, g):
    t = textid(eng, a[0])
    if isinstance(t, TextV): return TextV(t.id, True)
    if isinstance(t, StrV): return StrV(t.s.lower())
    raise Unsupported(f'to_lowercase of {t!r}')
def str_starts_with(eng, c, a, g):
    t, pre = textid(eng, a[0]), textid(eng, a[1])
    if isinstance(t, StrV) and isinstance(pre, StrV): return z3.BoolVal(t.s.startswith(pre.s))
    if isinstance(t, TextV) and t.lower and isinstance(pre, StrV) and pre.s == 'file://':
        r = FALSE
        attr = eng.cfg['text_lower_file']
        for i in range(len(attr)): r = IF(EQ(t.id, BV(i, 8)), attr[i], r)
        return r
    raise Unsupported(f'starts_with {t!r} / {pre!r}')
def string_deref(eng, c, a, g): return a[0]

MODELS = [
    (R(r'HashSet::<&?Url>::with_capacity'), set_with_capacity),
    (R(r'HashSet::<&?Url>::new'), set_with_capacity),
    (R(r'HashSet::<&?Url>::insert'), set_insert),
    (R(r'HashSet::<&?Url>::contains::<.*>'), set_contains),
    (R(r'HashSet::<&?Url>::len'), set_len),
    (R(r'IndexSet::<(T|&?Url)>::with_capacity'), oset_new),
    (R(r'<IndexSet<(T|&?Url)> as Default>::default'), oset_new),
    (R(r'IndexSet::<(T|&?Url)>::insert'), oset_insert),
    (R(r'IndexSet::<(T|&?Url)>::contains::<.*>'), oset_contains),
    (R(r'IndexSet::<(T|&?Url)>::get_index'), oset_get_index),
    (R(r'IndexSet::<(T|&?Url)>::iter'), oset_iter),
    (R(r'IndexSet::<(T|&?Url)>::len'), oset_len),
    (R(r'<IndexSet<(T|&?Url)> as Extend<.*>>::extend::<.*>'), oset_extend),
    (R(r'<.* as Iterator>::collect::<IndexSet<&?Url>>'), oset_collect),
    (R(r'VecDeque::<&Url>::new'), dq_new),
    (R(r'VecDeque::<&Url>::push_back'), dq_push_back),
    (R(r'VecDeque::<&Url>::push_front'), dq_push_front),
    (R(r'VecDeque::<&Url>::pop_front'), dq_pop_front),
    (R(r'Vec::<.*>::with_capacity'), vec_new),
    (R(r'Vec::<.*>::new'), vec_new),
    (R(r'<Vec<.*> as Default>::default'), vec_new),
    (R(r'Vec::<.*>::push'), vec_push),
    (R(r'Vec::<.*>::pop'), vec_pop),
    (R(r'Vec::<.*>::is_empty'), vec_is_empty),
    (R(r'Vec::<.*>::len'), vec_len),
    (R(r'<Vec<.*> as IntoIterator>::into_iter'), vec_into_iter),
    (R(r'core::slice::<impl \[.*\]>::iter'), slice_iter),
    (R(r'<&IndexMap<.*> as IntoIterator>::into_iter'), slotmap_iter),
    (R(r'<&(mut )?Vec<.*> as IntoIterator>::into_iter'), slice_iter),
    (R(r'<.* as IntoIterator>::into_iter'), iter_identity),
    (R(r'<.* as Iterator>::next'), iter_next),
    (R(r'<.* as Iterator>::rev'), iter_rev),
    (R(r'<.* as Iterator>::(copied|cloned)::<.*>'), iter_load_items),
    (R(r'<.* as Iterator>::map::<.*'), iter_map),
    (R(r'<.* as Iterator>::filter_map::<.*'), iter_filter_map),
    (R(r'<.* as Iterator>::chain::<.*'), iter_chain),
    (R(r'<.* as Iterator>::all::<.*'), iter_all),
    (R(r'<.* as Iterator>::flat_map::<.*'), iter_flat_map),
    (R(r'IndexMap::<.*>::values(_mut)?'), slotmap_values),
    (R(r'IndexMap::<.*>::iter(_mut)?'), slotmap_iter),
    (R(r'IndexMap::<.*>::len'), slotmap_len),
    (R(r'IndexMap::<.*>::is_empty'), slotmap_is_empty),
    (R(r'IndexMap::<.*>::get::<.*>'), slotmap_get),
    (R(r'IndexMap::<.*>::clear'), slotmap_clear),
    (R(r'<IndexMap<.*> as Default>::default'), slotmap_default),
    (R(r'BTreeMap::<Url, .*>::get::<.*>'), map_get),
    (R(r'BTreeMap::<Url, .*>::get_mut::<.*>'), map_get),
    (R(r'BTreeMap::<Url, .*>::get_key_value::<.*>'), map_get_key_value),
    (R(r'BTreeMap::<Url, .*>::contains_key::<.*>'), map_contains_key),
    (R(r'BTreeMap::<Url, .*>::len'), map_len),
    (R(r'BTreeMap::<Url, .*>::insert'), map_insert),
    (R(r'BTreeMap::<Url, .*>::remove::<.*>'), map_remove),
    (R(r'BTreeMap::<Url, .*>::iter'), map_iter),
    (R(r'BTreeMap::<Url, .*>::values'), map_values),
    (R(r'BTreeMap::<Url, .*>::keys'), map_keys),
    (R(r'BTreeMap::<Url, .*>::retain::<.*>'), map_retain),
    (R(r'<BTreeMap<Url, .*> as Default>::default'), map_default),
    (R(r'<(BTreeMap|BTreeSet|HashMap)<.*> as Default>::default'), opaque_default),
    (R(r'<Arc<.*> as Default>::default'), opaque_default),
    (R(r'std::option::Option::<.*>::take'), option_take),
    (R(r'std::option::Option::<.*>::as_ref'), option_as_ref),
    (R(r'std::option::Option::<.*>::as_mut'), option_as_ref),
    (R(r'std::option::Option::<.*>::map::<.*'), option_map),
    (R(r'std::option::Option::<.*>::and_then::<.*'), option_and_then),
    (R(r'std::option::Option::<.*>::or_else::<.*'), option_or_else),
    (R(r'std::option::Option::<.*>::is_some_and::<.*'), option_is_some_and),
    (R(r'std::option::Option::<.*>::is_some'), option_is_some),
    (R(r'std::option::Option::<.*>::is_none'), option_is_none),
    (R(r'std::option::Option::<.*>::(cloned|copied)'), option_cloned),
    (R(r'std::option::Option::<.*>::unwrap'), option_unwrap),
    (R(r'<std::option::Option<.*> as Try>::branch'), try_branch_option),
    (R(r'<std::option::Option<.*> as FromResidual<.*>>::from_residual'), from_residual_none),
    (R(r'<Result<.*> as Try>::branch'), try_branch_result),
    (R(r'<Result<.*> as FromResidual<.*>>::from_residual'), from_residual_result),
    (R(r'<.* as Clone>::clone_from'), clone_from),
    (R(r'<.* as Clone>::clone'), clone_value),
    (R(r'<.* as ToOwned>::to_owned'), clone_value),
    (R(r'<\{closure@[^}]*\} as Fn(Mut|Once)?<.*>>::call(_mut|_once)?'), closure_call),
    (R(r'Box::<.*>::new'), box_new),
    (R(r'<.* as Drop>::drop'), drop_noop),
    (R(r'<GraphKind as PartialEq>::eq'), enum_eq),
    (R(r'OnceLock::<IndexMap<.*>>::get_or_init::<.*'), once_lock_empty),
    (R(r'<dyn CheckJsResolver as CheckJsResolver>::resolve'), check_js_custom),
    (R(r'<Level as PartialOrd<LevelFilter>>::le'), log_off),
    (R(r'(Arguments::<.*>::new.*|core::fmt::rt::Argument::<.*>::new_.*|log::__private_api::.*|max_level)'), log_opaque),
    (R(r'Url::scheme'), url_scheme),
    (R(r'<&?str as PartialEq(<.*>)?>::eq'), str_eq),
    (R(r'std::str::<impl str>::to_lowercase'), str_to_lowercase),
    (R(r'core::str::<impl str>::starts_with::<&str>'), str_starts_with),
    (R(r'<std::string::String as Deref>::deref'), string_deref),
    (R(r'std::string::String::as_str'), string_deref),
]

MODELS_NORM = [(re.compile(norm_path(p.pattern)), f) for p, f in MODELS]

# ------------------------------------------------------------------ C06: versions, dates, hash maps with arbitrary iteration order
class SymStr:
    """an opaque string identified by a tag (package name, exclusion prefix)"""
    def __init__(self, tag): self.tag = tag
    def merge(self, g, o):
        if o.tag != self.tag: raise Unsupported('merge of two different symbolic strings')
        return self
def hashmap_iter_permuted(eng, c, a, g):
    """HashMap iteration order is unspecified: positions are filled through a symbolic permutation of the key universe"""
    perm = eng.cfg['hash_perm']
    items = []
    for cnd, (r, p), m in containers(eng, a[0]):
        n = len(m.present)
        for pos in range(n):
            sel = [EQ(perm[i], BV(pos, 8)) for i in range(n)]
            key = BV(0, 8)
            for i in range(n): key = IF(sel[i], BV(i, 8), key)
            avail = OR(*[AND(sel[i], m.present[i]) for i in range(n)])
            vref = Ptr([(sel[i], (r, p + (('k', i),))) for i in range(n)])
            items.append((AND(cnd, avail), Agg([url_ref(key), vref])))
    return IterModel(items)
def set_is_empty(eng, c, a, g): return EQ(eng.load(a[0]).count, BV(0, eng.W))
def version_req_matches(eng, c, a, g):
    u = uid(eng, a[1]); bits = eng.cfg['req_matches']; r = FALSE
    for i in range(len(bits)): r = IF(EQ(u, BV(i, 8)), bits[i], r)
    return r
def version_cmp(eng, c, a, g):
    x, y = uid(eng, a[0]), uid(eng, a[1])     # version ids are their ranks
    return EnumV(IF(ULT(x, y), BV(255, 8), IF(EQ(x, y), BV(0, 8), BV(1, 8))), {})
def ordering_is_lt(eng, c, a, g):
    o = deref_val(eng, a[0]); return EQ(o.tag, BV(255, 8))
def date_lt(eng, c, a, g):
    x, y = deref_val(eng, a[0]), deref_val(eng, a[1])
    while isinstance(x, Agg): x = x.f[0]
    while isinstance(y, Agg): y = y.f[0]
    return ULT(x, y)
def bool_then_some(eng, c, a, g): return opt(a[0], a[1])
def option_flatten(eng, c, a, g):
    o = a[0]; inner = opt_payload(o)
    if inner is None: return none()
    return ite(opt_is_some(o), inner, none())
def option_unwrap_or(eng, c, a, g):
    o = a[0]; p = opt_payload(o)
    if p is None: return a[1]
    return ite(opt_is_some(o), p, a[1])
def btreeset_contains_pkg(eng, c, a, g):
    name = textid(eng, a[1]); r = FALSE
    for cnd, pl, sq in containers(eng, a[0]):
        for gk, v in sq.items: r = OR(r, AND(cnd, gk, eng.cfg['str_eq'][(name.tag, v.tag)]))
    return r
def deref_identity(eng, c, a, g): return a[0]
def iter_any(eng, c, a, g):
    it = eng.load(a[0]); clo = a[1]; r = FALSE
    for av, v in it.remaining():
        if v is None or z3.is_false(av): continue
        r = OR(r, AND(av, eng.call_closure(clo, [v], AND(g, av))))
    return r
def symstr_starts_with(eng, c, a, g):
    t, pre = textid(eng, a[0]), textid(eng, a[1])
    if isinstance(t, SymStr) and isinstance(pre, SymStr): return eng.cfg['starts_with'][(t.tag, pre.tag)]
    return str_starts_with(eng, c, a, g)

def int_cmp(eng, c, a, g):
    x, y = deref_val(eng, a[0]), deref_val(eng, a[1])
    return EnumV(IF(ULT(x, y), BV(255, 8), IF(EQ(x, y), BV(0, 8), BV(1, 8))), {})
def partial_ord_via_cmp(eng, c, a, g):
    """provided PartialOrd methods (ge/le/gt/lt) of an in-crate type: defined through its own partial_cmp, executed from MIR"""
    m = re.fullmatch(r'<(.+) as PartialOrd>::(ge|le|gt|lt)', c)
    name = eng.lookup_callee(f'<{m.group(1)} as PartialOrd>::partial_cmp')
    if name is None: raise Unsupported('no in-crate partial_cmp for ' + c)
    r = eng.call(name, [a[0], a[1]], g)      # Option<Ordering>
    o = opt_payload(r).tag
    some = opt_is_some(r)
    lt, eq, gt = EQ(o, BV(255, 8)), EQ(o, BV(0, 8)), EQ(o, BV(1, 8))
    return AND(some, {'ge': OR(gt, eq), 'le': OR(lt, eq), 'gt': gt, 'lt': lt}[m.group(2)])

def sourcepos_add(eng, c, a, g):
    r = ADD(a[0], a[1]); eng.obligations.append(('SourcePos + usize wraps', AND(g, ULT(r, a[0])))); return r
def sourcepos_sub(eng, c, a, g):
    eng.obligations.append(('SourcePos - usize underflows', AND(g, ULT(a[0], a[1])))); return SUB(a[0], a[1])
def line_and_column_index(eng, c, a, g):
    L, C = eng.cfg['line_col']      # the text's offset -> (line, column) mapping: an arbitrary function
    return Agg([L(a[1]), C(a[1])])

_C06 = [
    (R(r'<SourcePos as Add<usize>>::add'), sourcepos_add),
    (R(r'<SourcePos as Sub<usize>>::sub'), sourcepos_sub),
    (R(r'SourceTextInfo::line_and_column_index'), line_and_column_index),
    (R(r'<(usize|u64|u32|u8) as Ord>::cmp'), int_cmp),
    (R(r'<[A-Z]\w* as PartialOrd>::(ge|le|gt|lt)'), partial_ord_via_cmp),
    (R(r'HashMap::<Version, .*>::iter'), hashmap_iter_permuted),
    (R(r'HashMap::<Version, .*>::get::<.*>'), map_get),
    (R(r'HashSet::<Version>::contains::<.*>'), set_contains),
    (R(r'HashSet::<Version>::is_empty'), set_is_empty),
    (R(r'VersionReq::matches'), version_req_matches),
    (R(r'<Version as Ord>::cmp'), version_cmp),
    (R(r'Ordering::is_lt'), ordering_is_lt),
    (R(r'<DateTime<Utc> as PartialOrd>::lt'), date_lt),
    (R(r'<impl bool>::then_some::<.*>'), bool_then_some),
    (R(r'Option::<.*>::flatten'), option_flatten),
    (R(r'Option::<.*>::unwrap_or'), option_unwrap_or),
    (R(r'BTreeSet::<StackString>::contains::<.*>'), btreeset_contains_pkg),
    (R(r'BTreeSet::<StackString>::iter'), slice_iter),
    (R(r'<(Vec<.*>|StackString) as Deref>::deref'), deref_identity),
    (R(r'StackString::as_str'), deref_identity),
    (R(r'<.* as Iterator>::any::<.*'), iter_any),
]
MODELS_NORM = [(re.compile(norm_path(p.pattern)), f) for p, f in _C06] + [(p, (symstr_starts_with if f is str_starts_with else f)) for p, f in MODELS_NORM]

# ------------------------------------------------------------------ C20 kernels: text length, charset choice
class TextLenV:
    """an Arc<str>/&str of which only the byte length matters"""
    def __init__(self, ln): self.len = ln
    def merge(self, g, o): return TextLenV(IF(g, self.len, o.len))
def str_len(eng, c, a, g):
    t = a[0]
    while isinstance(t, Ptr): t = eng.load(t)
    if isinstance(t, TextLenV): return t.len
    if isinstance(t, StrV): return BV(len(t.s.encode()), eng.W)
    raise Unsupported(f'str::len of {t!r}')
def option_unwrap_or_else(eng, c, a, g):
    o = a[0]; p = opt_payload(o); is_some = opt_is_some(o)
    if z3.is_true(is_some): return p
    r = eng.call_closure(a[1], [], AND(g, NOT(is_some)))
    return r if p is None else ite(is_some, p, r)
def detect_charset_model(eng, c, a, g): return ref_to(SymStr('detected-charset'), 'charset')
def decode_model(eng, c, a, g):
    cs = a[0]
    if isinstance(cs, Ptr):
        for cnd, pl in cs.targets: eng.cfg.setdefault('decode_calls', []).append((AND(g, cnd), eng.read(pl)))
    else: eng.cfg.setdefault('decode_calls', []).append((g, cs))
    return EnumV(eng.cfg['decode_ok_tag'], {0: Agg([Agg([TextLenV(eng.cfg['decoded_len']), EnumV(eng.cfg['decoded_kind'], {})])]), 1: Agg([Opaque('io error')])})
def result_map(eng, c, a, g):
    r, clo = a[0], a[1]
    ok = r.is_variant(0); p = r.vars[0].f[0] if 0 in r.vars and r.vars[0].f else None
    if p is None or z3.is_false(ok): return r
    v = eng.call_closure(clo, [p], AND(g, ok))
    return EnumV(r.tag, {0: Agg([v]), 1: r.vars.get(1, Agg([]))})
def result_map_err(eng, c, a, g):
    r, clo = a[0], a[1]
    err = r.is_variant(1); p = r.vars[1].f[0] if 1 in r.vars and r.vars[1].f else None
    if p is None or z3.is_false(err): return r
    v = eng.call_closure(clo, [p], AND(g, err))
    return EnumV(r.tag, {0: r.vars.get(0, Agg([])), 1: Agg([v])})
def arc_new(eng, c, a, g): return a[0]

_C20 = [
    (R(r'<impl str>::len'), str_len),
    (R(r'<Arc<.*> as Deref>::deref'), deref_identity),
    (R(r'Arc::<.*>::new'), arc_new),
    (R(r'<.* as AsRef<.*>>::as_ref'), deref_identity),
    (R(r'Arc::<.*>::new'), arc_new),
    (R(r'Option::<.*>::unwrap_or_else::<.*'), option_unwrap_or_else),
    (R(r'detect_charset'), detect_charset_model),
    (R(r'decode_arc_source_detail'), decode_model),
    (R(r'Result::<.*>::map::<.*'), result_map),
    (R(r'Result::<.*>::map_err::<.*'), result_map_err),
]
MODELS_NORM = [(re.compile(norm_path(p.pattern)), f) for p, f in _C20] + MODELS_NORM

# ------------------------------------------------------------------ deno_media_type::MediaType predicates (tables copied from deno_media_type 0.4.0)
_MT_SETS = {
    'is_typed': ['TypeScript', 'Mts', 'Cts', 'Dts', 'Dmts', 'Dcts', 'Tsx', 'Json', 'Jsonc', 'Json5', 'Wasm'],
    'is_declaration': ['Dts', 'Dmts', 'Dcts'],
    'is_emittable': ['TypeScript', 'Mts', 'Cts', 'Jsx', 'Tsx'],
    'is_jsx': ['Tsx', 'Jsx'],
}
def media_type_pred(eng, c, a, g):
    m = deref_val(eng, a[0]); names = eng.mir.enums['MediaType']
    return OR(*[EQ(m.tag, BV(names.index(n), 8)) for n in _MT_SETS[c.split('::')[-1]]])
MODELS_NORM = [(re.compile(r'MediaType::(is_typed|is_declaration|is_emittable|is_jsx)'), media_type_pred)] + MODELS_NORM

def slice_last(eng, c, a, g):
    items = []
    for cnd, pl, sq in containers(eng, a[0]):
        if not isinstance(sq, SeqV): raise Unsupported(f'slice::last on {sq!r}')
        later = FALSE
        for k in range(len(sq.items) - 1, -1, -1):
            gk, v = sq.items[k]
            items.append((AND(cnd, gk, NOT(later)), Ptr([(TRUE, (Root(v, 'slice-elem'), ()))])))
            later = OR(later, gk)
    some = OR(*[c_ for c_, _ in items])
    val = None
    for c_, p_ in items: val = p_ if val is None else ite(c_, p_, val)
    return opt(some, val)
MODELS_NORM = [(re.compile(r'<impl \[.*\]>::last'), slice_last), (re.compile(r'<str as ToString>::to_string'), deref_identity)] + MODELS_NORM

# ------------------------------------------------------------------ C01 kernel: vec! lowering, IndexMap entries, misc
def box_new_uninit(eng, c, a, g): return BoxV(Agg([]))
def array_to_vec(eng, c, a, g):
    n = int(re.search(r', (\d+)>$', c).group(1))
    v = a[0].val if isinstance(a[0], BoxV) else a[0]
    # path written by MIR: (*box).1 .0 .0 = [elems]
    for idx in (1, 0, 0):
        v = v.f[idx]
    assert isinstance(v, Agg) and len(v.f) == n, v
    cap = max(n, eng.cfg.get('VEC', 4))
    return VecModel(list(v.f) + [None] * (cap - n), BV(n, eng.W))
def iter_collect_vec(eng, c, a, g):
    it = a[0]
    items = [v for av, v in it.remaining()]
    avs = [av for av, v in it.remaining()]
    cnt = BV(0, eng.W)
    for av in avs: cnt = IF(av, ADD(cnt, 1), cnt)
    cap = max(len(items), eng.cfg.get('VEC', 4))
    return VecModel(items + [None] * (cap - len(items)), cnt)     # availability of a Vec IntoIter is a prefix
class EntryV:
    """payload of an indexmap / hash_map Entry (both variants): the map and the key"""
    def __init__(self, mapptr, key): self.mapptr, self.key = mapptr, key
    def merge(self, g, o): return EntryV(ite(g, self.mapptr, o.mapptr), ite(g, self.key, o.key))
def entry_parts(e):
    if isinstance(e, EntryV): return e
    return e.vars[1].f[0] if 1 in e.vars else e.vars[0].f[0]
def as_key(eng, k):
    k = textid(eng, k)
    lit = eng.cfg.get('text_literals')
    if lit and isinstance(k, StrV) and k.s in lit: return TextV(BV(lit[k.s], 8))
    return k
def indexmap_entry(eng, c, a, g):
    ev_ = EntryV(a[0], a[1])
    found = FALSE
    key = as_key(eng, a[1])
    for cnd, pl, m in containers(eng, a[0]):
        if isinstance(m, SlotMap):
            found = OR(found, AND(cnd, OR(*[AND(m.present[i], key_match(eng, key, m.keys[i])) for i in range(len(m.present)) if m.keys[i] is not None])))
        elif isinstance(m, MapModel):
            u = uid(eng, a[1]); sel = onehot_sel(u, len(m.present))
            found = OR(found, AND(cnd, OR(*[AND(sel[i], m.present[i]) for i in range(len(m.present))])))
    return EnumV(IF(found, BV(0, 8), BV(1, 8)), {0: Agg([ev_]), 1: Agg([ev_])})
def indexmap_entry_or_default(eng, c, a, g):
    e = entry_parts(a[0])
    vty = re.search(r'Entry::<.*, (\w+)>::or_default', c).group(1)
    dname = eng.mir.index.get((vty, 'Default', 'default'))
    if dname is None: raise Unsupported('no Default for ' + vty)
    dflt = eng.call(dname, [], g)
    refs = []
    for cnd, (r, p), m in containers(eng, e.mapptr):
        n = len(m.present)
        hit = [AND(m.present[i], key_match(eng, e.key, m.keys[i])) if m.keys[i] is not None else FALSE for i in range(n)]
        found = OR(*hit)
        newpos, earlier_full = [], TRUE
        for i in range(n):      # first free slot (equals the insertion position when the map is filled from empty)
            newpos.append(AND(NOT(found), earlier_full, NOT(m.present[i]))); earlier_full = AND(earlier_full, m.present[i])
        eng.obligations.append(('IndexMap model capacity', AND(g, cnd, NOT(found), earlier_full)))
        k = as_key(eng, e.key)
        nm = SlotMap([OR(m.present[i], newpos[i]) for i in range(n)], [ite(newpos[i], k, m.keys[i]) for i in range(n)], [ite(newpos[i], dflt, m.vals[i]) for i in range(n)])
        eng.write((r, p), nm, AND(g, cnd))
        for i in range(n): refs.append((AND(cnd, OR(hit[i], newpos[i])), (r, p + (('k', i),))))
    return Ptr(refs)
def slotmap_retain(eng, c, a, g):
    clo = a[1]
    for cnd, (r, p), m in containers(eng, a[0]):
        keep = []
        for i in range(len(m.present)):
            gi = AND(g, cnd, m.present[i])
            if z3.is_false(gi) or m.vals[i] is None: keep.append(m.present[i]); continue
            k = eng.call_closure(clo, [ref_to(m.keys[i], 'key'), Ptr([(TRUE, (r, p + (('k', i),)))])], gi)
            keep.append(AND(m.present[i], k))
        m2 = eng.read((r, p))
        # compaction is not modelled: retained slots keep their positions (order preserved, holes allowed)
        eng.write((r, p), SlotMap(keep, m2.keys, m2.vals), AND(g, cnd))
    return UNIT
def vec_retain(eng, c, a, g):
    clo = a[1]
    for cnd, (r, p), v in containers(eng, a[0]):
        n = len(v.items)
        keep = []
        for i in range(n):
            gi = AND(g, cnd, ULT(BV(i, eng.W), v.len))
            if v.items[i] is None or z3.is_false(gi): keep.append(FALSE); continue
            keep.append(AND(ULT(BV(i, eng.W), v.len), eng.call_closure(clo, [Ptr([(TRUE, (r, p + (('k', i),)))])], gi)))
        # compact the kept items to the front
        items = [None] * n; cnt = BV(0, eng.W)
        for i in range(n):
            if v.items[i] is None: continue
            for j in range(i + 1):
                sel = AND(keep[i], EQ(cnt, BV(j, eng.W)))
                items[j] = v.items[i] if items[j] is None else ite(sel, v.items[i], items[j])
            cnt = IF(keep[i], ADD(cnt, 1), cnt)
        eng.write((r, p), VecModel(items, cnt), AND(g, cnd))
    return UNIT
def option_as_deref(eng, c, a, g):
    o = a[0]
    if isinstance(o, Ptr): return option_as_ref(eng, c, a, g)
    return o
def option_default(eng, c, a, g): return none()
def bool_default(eng, c, a, g): return FALSE
def bool_then(eng, c, a, g):
    if z3.is_false(a[0]): return none()
    return opt(a[0], eng.call_closure(a[1], [], AND(g, a[0])))
def option_ref_ne(eng, c, a, g):
    x, y = deref_val(eng, a[0]), deref_val(eng, a[1])
    xs, ys = opt_is_some(x), opt_is_some(y)
    px, py = opt_payload(x), opt_payload(y)
    same = AND(xs, ys, EQ(uid(eng, px), uid(eng, py))) if (px is not None and py is not None) else FALSE
    eq = OR(AND(NOT(xs), NOT(ys)), same)
    return NOT(eq) if c.endswith('::ne') else eq
def unit_enum_cmp(eng, c, a, g):
    x, y = deref_val(eng, a[0]), deref_val(eng, a[1])
    r = EQ(x.tag, y.tag)
    return NOT(r) if c.endswith('::ne') else r
def string_default(eng, c, a, g): return StrV('')
_C01 = [
    (R(r'Box::<\[.*; \d+\]>::new_uninit'), box_new_uninit),
    (R(r'box_assume_init_into_vec_unsafe::<.*, \d+>'), array_to_vec),
    (R(r'<.* as Iterator>::collect::<Vec<.*>>'), iter_collect_vec),
    (R(r'IndexMap::<.*>::entry'), indexmap_entry),
    (R(r'Entry::<.*>::or_default'), indexmap_entry_or_default),
    (R(r'IndexMap::<.*>::retain::<.*'), slotmap_retain),
    (R(r'Vec::<.*>::retain::<.*'), vec_retain),
    (R(r'Option::<.*>::as_deref'), option_as_deref),
    (R(r'<Option<.*> as Default>::default'), option_default),
    (R(r'<bool as Default>::default'), bool_default),
    (R(r'<String as Default>::default'), string_default),
    (R(r'<impl bool>::then::<.*'), bool_then),
    (R(r'<Option<&Url> as PartialEq>::(eq|ne)'), option_ref_ne),
    (R(r'<(StaticDependencyKind|DynamicDependencyKind|ImportKind|GraphKind|MediaType|ResolutionKind) as PartialEq>::(eq|ne)'), unit_enum_cmp),
    (R(r'<Vec<.*> as Deref(Mut)?>::deref(_mut)?'), deref_identity),
]
MODELS_NORM = [(re.compile(norm_path(p.pattern)), f) for p, f in _C01] + MODELS_NORM

def panic_model(eng, c, a, g):
    msg = a[0].s if a and isinstance(a[0], StrV) else c
    eng.panics.append((f'panic: {msg[:60]}', g)); return UNIT
MODELS_NORM = [(re.compile(r'(panic|panic_fmt|panic_display|panic_nounwind|unwrap_failed|expect_failed|panic_cold_explicit|unreachable_display)(::<.*>)?'), panic_model)] + MODELS_NORM

def slice_sort_noop(eng, c, a, g):
    """sorting is only modelled for sequences of at most one element (the C01 kernel stubs template expansion to an empty list)"""
    for cnd, pl, v in containers(eng, a[0]):
        if isinstance(v, VecModel): eng.obligations.append(('sort of a sequence longer than 1 is not modelled', AND(g, cnd, ULT(BV(1, eng.W), v.len))))
    return UNIT
MODELS_NORM = [(re.compile(r'<impl \[.*\]>::sort'), slice_sort_noop)] + MODELS_NORM

def range_len(eng, c, a, g):
    r = deref_val(eng, a[0])
    eng.obligations.append(('Range::len with start > end', AND(g, ULT(r.f[1], r.f[0]))))
    return SUB(r.f[1], r.f[0])
def char_len_utf8(eng, c, a, g):
    ch = a[0]
    W = eng.W
    if z3.is_bv_value(ch):
        v = ch.as_long(); return BV(1 if v < 0x80 else 2 if v < 0x800 else 3 if v < 0x10000 else 4, W)
    return IF(ULT(ch, BV(0x80, 32)), BV(1, W), IF(ULT(ch, BV(0x800, 32)), BV(2, W), IF(ULT(ch, BV(0x10000, 32)), BV(3, W), BV(4, W))))
MODELS_NORM = [(re.compile(r'<Range<usize> as ExactSizeIterator>::len'), range_len), (re.compile(r'<impl char>::len_utf8'), char_len_utf8)] + MODELS_NORM

def str_ne(eng, c, a, g): return NOT(str_eq(eng, c, a, g))
MODELS_NORM = [(re.compile(r'<&?str as PartialEq(<.*>)?>::ne'), str_ne)] + MODELS_NORM

# ------------------------------------------------------------------ C01 edges kernel: HashMap<Url, V> entry API, find_map, BTreeSet<Url>
def hashmap_entry_or_insert_with(eng, c, a, g):
    e, clo = entry_parts(a[0]), a[1]
    u = uid(eng, e.key)
    refs = []
    for cnd, (r, p), m in containers(eng, e.mapptr):
        n = len(m.present); sel = onehot_sel(u, n)
        found = OR(*[AND(sel[i], m.present[i]) for i in range(n)])
        newv = eng.call_closure(clo, [], AND(g, cnd, NOT(found)))
        nm = MapModel([OR(m.present[i], sel[i]) for i in range(n)], [ite(AND(sel[i], NOT(m.present[i])), newv, m.vals[i]) for i in range(n)])
        eng.write((r, p), nm, AND(g, cnd))
        for i in range(n): refs.append((AND(cnd, sel[i]), (r, p + (('k', i),))))
    return Ptr(refs)
def iter_find_map(eng, c, a, g):
    it = eng.load(a[0]) if isinstance(a[0], Ptr) else a[0]; clo = a[1]
    res = none(); done = FALSE
    for av, v in it.remaining():
        if v is None or z3.is_false(av): continue
        r = eng.call_closure(clo, [v], AND(g, av, NOT(done)))
        hit = AND(av, NOT(done), opt_is_some(r))
        res = ite(hit, r, res); done = OR(done, hit)
    return res
MODELS_NORM = [(re.compile(r'HashMap::<Url, .*>::entry'), indexmap_entry), (re.compile(r'Entry::<.*Url, .*>::or_insert_with::<.*'), hashmap_entry_or_insert_with),
               (re.compile(r'HashMap::<Url, .*>::insert'), map_insert), (re.compile(r'<.* as Iterator>::find_map::<.*'), iter_find_map),
               (re.compile(r'BTreeSet::<Url>::contains::<.*>'), set_contains)] + MODELS_NORM

# ------------------------------------------------------------------ wider std coverage (so that benign refactorings of the code under test stay decidable)
def option_filter(eng, c, a, g):
    o, clo = a[0], a[1]; p = opt_payload(o); s_ = opt_is_some(o)
    if p is None or z3.is_false(s_): return none()
    keep = eng.call_closure(clo, [ref_to(p, 'opt-payload')], AND(g, s_))
    return EnumV(IF(AND(s_, keep), BV(1, 8), BV(0, 8)), o.vars)
def option_ok_or(eng, c, a, g):
    o = a[0]; p = opt_payload(o)
    return EnumV(IF(opt_is_some(o), BV(0, 8), BV(1, 8)), {0: Agg([p]), 1: Agg([a[1]])})
def option_expect(eng, c, a, g):
    o = a[0]
    eng.panics.append((f'expect on None ({c[:40]})', AND(g, NOT(opt_is_some(o))))); return opt_payload(o)
def option_map_or(eng, c, a, g):
    o, dflt, clo = a[0], a[1], a[2]; p = opt_payload(o); s_ = opt_is_some(o)
    if p is None or z3.is_false(s_): return dflt
    return ite(s_, eng.call_closure(clo, [p], AND(g, s_)), dflt)
def option_map_or_else(eng, c, a, g):
    o, dclo, clo = a[0], a[1], a[2]; p = opt_payload(o); s_ = opt_is_some(o)
    d = eng.call_closure(dclo, [], AND(g, NOT(s_))) if not z3.is_true(s_) else None
    if p is None or z3.is_false(s_): return d
    v = eng.call_closure(clo, [p], AND(g, s_))
    return v if d is None else ite(s_, v, d)
def option_is_none_or(eng, c, a, g):
    o, clo = a[0], a[1]; p = opt_payload(o); s_ = opt_is_some(o)
    if p is None or z3.is_false(s_): return TRUE
    return OR(NOT(s_), eng.call_closure(clo, [p], AND(g, s_)))
def option_or(eng, c, a, g): return ite(opt_is_some(a[0]), a[0], a[1])
def option_and(eng, c, a, g): return ite(opt_is_some(a[0]), a[1], none())
def option_insert(eng, c, a, g):
    eng.store(a[0], some(a[1]), g)
    return Ptr([(cnd, (r, p + (('v', 1), ('f', 0)))) for cnd, (r, p) in a[0].targets])
def option_replace(eng, c, a, g):
    old = eng.load(a[0]); eng.store(a[0], some(a[1]), g); return old
def result_ok(eng, c, a, g):
    r = a[0]; p = r.vars[0].f[0] if 0 in r.vars and r.vars[0].f else None
    return opt(r.is_variant(0), p)
def result_err(eng, c, a, g):
    r = a[0]; p = r.vars[1].f[0] if 1 in r.vars and r.vars[1].f else None
    return opt(r.is_variant(1), p)
def result_is_ok(eng, c, a, g): return deref_val(eng, a[0]).is_variant(0)
def result_is_err(eng, c, a, g): return deref_val(eng, a[0]).is_variant(1)
def result_unwrap(eng, c, a, g):
    r = a[0]
    eng.panics.append((f'unwrap on Err ({c[:40]})', AND(g, r.is_variant(1))))
    return r.vars[0].f[0] if 0 in r.vars and r.vars[0].f else None
def result_and_then(eng, c, a, g):
    r, clo = a[0], a[1]; ok = r.is_variant(0); p = r.vars[0].f[0] if 0 in r.vars and r.vars[0].f else None
    if p is None or z3.is_false(ok): return r
    return ite(ok, eng.call_closure(clo, [p], AND(g, ok)), r)
def iter_filter(eng, c, a, g):
    it, clo = a[0], a[1]
    items = []
    for av, v in it.items:
        if v is None or z3.is_false(AND(g, av)): items.append((FALSE, None)); continue
        items.append((AND(av, eng.call_closure(clo, [ref_to(v, 'item')], AND(g, av))), v))
    return IterModel(items, it.consumed)
def iter_find(eng, c, a, g):
    it = eng.load(a[0]) if isinstance(a[0], Ptr) else a[0]; clo = a[1]
    res = none(); done = FALSE
    for av, v in it.remaining():
        if v is None or z3.is_false(av): continue
        hit = AND(av, NOT(done), eng.call_closure(clo, [ref_to(v, 'item')], AND(g, av, NOT(done))))
        res = ite(hit, some(v), res); done = OR(done, hit)
    return res
def iter_count(eng, c, a, g):
    cnt = BV(0, eng.W)
    for av, v in a[0].remaining(): cnt = IF(av, ADD(cnt, 1), cnt)
    return cnt
def iter_for_each(eng, c, a, g):
    for av, v in a[0].remaining():
        if v is None or z3.is_false(AND(g, av)): continue
        eng.call_closure(a[1], [v], AND(g, av))
    return UNIT
def iter_enumerate(eng, c, a, g):
    items, idx = [], BV(0, eng.W)
    for (av, v), cn in zip(a[0].items, a[0].consumed):
        items.append((av, Agg([idx, v]) if v is not None else None)); idx = IF(AND(av, NOT(cn)), ADD(idx, 1), idx)
    return IterModel(items, a[0].consumed)
def iter_last(eng, c, a, g):
    res = none()
    for av, v in a[0].remaining():
        if v is not None: res = ite(av, some(v), res)
    return res
def iter_fold(eng, c, a, g):
    acc = a[1]
    for av, v in a[0].remaining():
        if v is None or z3.is_false(AND(g, av)): continue
        acc = ite(av, eng.call_closure(a[2], [acc, v], AND(g, av)), acc)
    return acc
def vec_extend(eng, c, a, g):
    it = a[1]
    if isinstance(it, VecModel): it = vec_into_iter(eng, c, [it], g)
    if not isinstance(it, IterModel): raise Unsupported(f'extend from {it!r}')
    for av, v in it.remaining():
        if v is None or z3.is_false(AND(g, av)): continue
        vec_push(eng, c, [a[0], v], AND(g, av))
    return UNIT
def deque_extend(eng, c, a, g):
    for av, v in a[1].remaining():
        if v is None or z3.is_false(AND(g, av)): continue
        dq_push_back(eng, c, [a[0], v], AND(g, av))
    return UNIT
def set_extend(eng, c, a, g):
    for av, v in a[1].remaining():
        if v is None or z3.is_false(AND(g, av)): continue
        set_insert(eng, c, [a[0], v], AND(g, av))
    return UNIT
def dq_len(eng, c, a, g): return eng.load(a[0]).len
def dq_is_empty(eng, c, a, g): return EQ(eng.load(a[0]).len, BV(0, eng.W))
def map_is_empty(eng, c, a, g): return EQ(map_len(eng, c, a, g), BV(0, eng.W))
def map_entry_or_insert(eng, c, a, g):
    e = entry_parts(a[0])
    class _K:  # closure-less: insert the given value when absent
        pass
    u = uid(eng, e.key); refs = []
    for cnd, (r, p), m in containers(eng, e.mapptr):
        n = len(m.present); sel = onehot_sel(u, n)
        nm = MapModel([OR(m.present[i], sel[i]) for i in range(n)], [ite(AND(sel[i], NOT(m.present[i])), a[1], m.vals[i]) for i in range(n)])
        eng.write((r, p), nm, AND(g, cnd))
        for i in range(n): refs.append((AND(cnd, sel[i]), (r, p + (('k', i),))))
    return Ptr(refs)
def mem_take(eng, c, a, g):
    old = eng.load(a[0])
    if isinstance(old, EnumV) and 0 in old.vars and not old.vars[0].f: eng.store(a[0], none(), g)      # Option<T>::default
    elif z3.is_expr(old) and z3.is_bool(old): eng.store(a[0], FALSE, g)
    elif isinstance(old, VecModel): eng.store(a[0], VecModel(old.items, BV(0, eng.W)), g)
    else: raise Unsupported(f'mem::take of {old!r}')
    return old
def mem_replace(eng, c, a, g):
    old = eng.load(a[0]); eng.store(a[0], a[1], g); return old
def mem_swap(eng, c, a, g):
    x, y = eng.load(a[0]), eng.load(a[1]); eng.store(a[0], y, g); eng.store(a[1], x, g); return UNIT
_WIDE = [
    (R(r'Option::<.*>::filter::<.*'), option_filter), (R(r'Option::<.*>::ok_or::<.*'), option_ok_or), (R(r'Option::<.*>::expect'), option_expect),
    (R(r'Option::<.*>::map_or::<.*'), option_map_or), (R(r'Option::<.*>::map_or_else::<.*'), option_map_or_else), (R(r'Option::<.*>::is_none_or::<.*'), option_is_none_or),
    (R(r'Option::<.*>::or'), option_or), (R(r'Option::<.*>::and::<.*'), option_and), (R(r'Option::<.*>::insert'), option_insert), (R(r'Option::<.*>::replace'), option_replace),
    (R(r'Result::<.*>::ok'), result_ok), (R(r'Result::<.*>::err'), result_err), (R(r'Result::<.*>::is_ok'), result_is_ok), (R(r'Result::<.*>::is_err'), result_is_err),
    (R(r'Result::<.*>::(unwrap|expect)'), result_unwrap), (R(r'Result::<.*>::and_then::<.*'), result_and_then),
    (R(r'<.* as Iterator>::filter::<.*'), iter_filter), (R(r'<.* as Iterator>::find::<.*'), iter_find), (R(r'<.* as Iterator>::count'), iter_count),
    (R(r'<.* as Iterator>::for_each::<.*'), iter_for_each), (R(r'<.* as Iterator>::enumerate'), iter_enumerate), (R(r'<.* as Iterator>::last'), iter_last),
    (R(r'<.* as Iterator>::fold::<.*'), iter_fold),
    (R(r'<Vec<.*> as Extend<.*>>::extend::<.*'), vec_extend), (R(r'Vec::<.*>::extend_from_slice'), vec_extend),
    (R(r'<VecDeque<&Url> as Extend<.*>>::extend::<.*'), deque_extend), (R(r'<HashSet<&?Url> as Extend<.*>>::extend::<.*'), set_extend),
    (R(r'VecDeque::<&Url>::len'), dq_len), (R(r'VecDeque::<&Url>::is_empty'), dq_is_empty), (R(r'VecDeque::<&Url>::with_capacity'), dq_new),
    (R(r'BTreeMap::<Url, .*>::is_empty'), map_is_empty), (R(r'BTreeMap::<Url, .*>::(values_mut|iter_mut)'), map_values),
    (R(r'BTreeMap::<Url, .*>::entry'), indexmap_entry), (R(r'Entry::<.*Url, .*>::or_insert'), map_entry_or_insert),
    (R(r'take::<.*>'), mem_take), (R(r'replace::<.*>'), mem_replace), (R(r'swap::<.*>'), mem_swap),
    (R(r'IndexSet::<(T|&?Url)>::is_empty'), lambda e, c, a, g: EQ(e.load(a[0]).len, BV(0, e.W))),
    (R(r'HashSet::<&?Url>::is_empty'), set_is_empty),
]
MODELS_NORM = MODELS_NORM + [(re.compile(norm_path(p.pattern)), f) for p, f in _WIDE]      # appended: specific models keep precedence

# ------------------------------------------------------------------ C09 lattice kernel: IndexMap<String, V> by-value iteration, insert, Entry variants
def slotmap_slot_insert(eng, mapptr, key, val, g, only_if_absent=False):
    """insert key -> val; returns (was_present, pointer to the value slot, old value)"""
    key = as_key(eng, key); refs = []; was = FALSE; old = None
    for cnd, (r, p), m in containers(eng, mapptr):
        n = len(m.present)
        hit = [AND(m.present[i], key_match(eng, key, m.keys[i])) if m.keys[i] is not None else FALSE for i in range(n)]
        found = OR(*hit); was = OR(was, AND(cnd, found))
        newpos, earlier_full = [], TRUE
        for i in range(n):
            newpos.append(AND(NOT(found), earlier_full, NOT(m.present[i]))); earlier_full = AND(earlier_full, m.present[i])
        eng.obligations.append(('IndexMap model capacity', AND(g, cnd, NOT(found), earlier_full)))
        for i in range(n):
            if m.vals[i] is not None: old = m.vals[i] if old is None else ite(AND(cnd, hit[i]), m.vals[i], old)
        wr = [OR(newpos[i], FALSE if only_if_absent else hit[i]) for i in range(n)]
        nm = SlotMap([OR(m.present[i], newpos[i]) for i in range(n)], [ite(newpos[i], key, m.keys[i]) for i in range(n)], [ite(wr[i], val, m.vals[i]) for i in range(n)])
        eng.write((r, p), nm, AND(g, cnd))
        for i in range(n): refs.append((AND(cnd, OR(hit[i], newpos[i])), (r, p + (('k', i),))))
    return was, Ptr(refs), old
def slotmap_insert(eng, c, a, g):
    was, ref, old = slotmap_slot_insert(eng, a[0], a[1], a[2], g)
    return opt(was, old)
def slotmap_contains_key(eng, c, a, g):
    r = slotmap_get(eng, c, a, g); return opt_is_some(r)
def slotmap_into_iter_by_value(eng, c, a, g):
    m = a[0]
    return IterModel([(m.present[i], Agg([m.keys[i], m.vals[i]])) for i in range(len(m.present)) if m.keys[i] is not None and m.vals[i] is not None])
def slotmap_default_cap(eng, c, a, g): return SlotMap.empty(eng.cfg.get('MAPCAP', 0))
def occupied_get_mut(eng, c, a, g):
    e = a[0]
    while isinstance(e, Ptr): e = eng.load(e)
    r = slotmap_get(eng, c, [e.mapptr, e.key], g); return opt_payload(r)
def vacant_insert(eng, c, a, g):
    e = a[0]
    while isinstance(e, Ptr): e = eng.load(e)
    was, ref, old = slotmap_slot_insert(eng, e.mapptr, e.key, a[1], g); return ref
def indexmap_or_insert_with(eng, c, a, g):
    e, clo = entry_parts(a[0]), a[1]
    found = opt_is_some(slotmap_get(eng, c, [e.mapptr, e.key], g))
    v = eng.call_closure(clo, [], AND(g, NOT(found)))
    was, ref, old = slotmap_slot_insert(eng, e.mapptr, e.key, v, g, only_if_absent=True); return ref
MODELS_NORM = [(re.compile(r'IndexMap::<String, .*>::insert'), slotmap_insert), (re.compile(r'IndexMap::<String, .*>::contains_key::<.*>'), slotmap_contains_key),
               (re.compile(r'IndexMap::<String, .*>::get_mut::<.*>'), slotmap_get), (re.compile(r'<IndexMap<String, .*> as IntoIterator>::into_iter'), slotmap_into_iter_by_value),
               (re.compile(r'<IndexMap<String, Exports> as Default>::default'), slotmap_default_cap),
               (re.compile(r'OccupiedEntry::<.*>::(get_mut|into_mut)'), occupied_get_mut), (re.compile(r'VacantEntry::<.*>::insert'), vacant_insert),
               (re.compile(r'Entry::<.*String, .*>::or_insert_with::<.*'), indexmap_or_insert_with)] + MODELS_NORM

# ------------------------------------------------------------------ comparison family (ordered atoms, instants, integers) and Ordering helpers
def _scalar(eng, x):
    while isinstance(x, Ptr): x = eng.load(x)
    if isinstance(x, UrlV): return x.id
    while isinstance(x, Agg) and len(x.f) == 1: x = x.f[0]
    if isinstance(x, UrlV): return x.id
    if z3.is_expr(x): return x
    raise Unsupported(f'comparison of {x!r}')
def ord_cmp_op(eng, c, a, g):
    x, y = _scalar(eng, a[0]), _scalar(eng, a[1])
    op = re.search(r'::(lt|le|gt|ge|eq|ne)$', c).group(1)
    lt, eq = ULT(x, y), EQ(x, y)
    return {'lt': lt, 'le': OR(lt, eq), 'gt': AND(NOT(lt), NOT(eq)), 'ge': NOT(lt), 'eq': eq, 'ne': NOT(eq)}[op]
def ord_cmp(eng, c, a, g):
    x, y = _scalar(eng, a[0]), _scalar(eng, a[1])
    return EnumV(IF(ULT(x, y), BV(255, 8), IF(EQ(x, y), BV(0, 8), BV(1, 8))), {})
def ordering_pred(eng, c, a, g):
    o = deref_val(eng, a[0]); t = o.tag
    lt, eq, gt = EQ(t, BV(255, 8)), EQ(t, BV(0, 8)), EQ(t, BV(1, 8))
    return {'is_lt': lt, 'is_le': OR(lt, eq), 'is_gt': gt, 'is_ge': OR(gt, eq), 'is_eq': eq, 'is_ne': NOT(eq)}[c.split('::')[-1]]
def ordering_then_with(eng, c, a, g):
    o = a[0]; is_eq = EQ(o.tag, BV(0, 8))
    if z3.is_false(is_eq): return o
    r = eng.call_closure(a[1], [], AND(g, is_eq))
    return EnumV(IF(is_eq, r.tag, o.tag), {})
def ordering_then(eng, c, a, g):
    o = a[0]; return EnumV(IF(EQ(o.tag, BV(0, 8)), a[1].tag, o.tag), {})
def ordering_reverse(eng, c, a, g):
    t = a[0].tag; return EnumV(IF(EQ(t, BV(255, 8)), BV(1, 8), IF(EQ(t, BV(1, 8)), BV(255, 8), BV(0, 8))), {})
def int_from(eng, c, a, g):
    m = re.match(r'<(\w+) as From<(\w+)>>::from', c)
    info = eng.int_info(m.group(1)); v = a[0]
    if z3.is_bool(v): return IF(v, BV(1, info[0]), BV(0, info[0]))
    src = eng.int_info(m.group(2))
    return fit(v, info[0], bool(src and src[1]))
def ord_max_min(eng, c, a, g):
    x, y = _scalar(eng, a[0]), _scalar(eng, a[1])
    pick_y = ULT(x, y) if c.endswith('max') else ULT(y, x)
    return ite(pick_y, a[1], a[0])
_CMP = [
    (R(r'<&*(Version|DateTime<Utc>|NewestDependencyDate|usize|u64|u32|u8) as PartialOrd(<.*>)?>::(lt|le|gt|ge)'), ord_cmp_op),
    (R(r'<&*(Version|DateTime<Utc>|usize|u64|u32|u8) as PartialEq(<.*>)?>::(eq|ne)'), ord_cmp_op),
    (R(r'<&*(Version|DateTime<Utc>) as (Ord|PartialOrd)>::(cmp)'), ord_cmp),
    (R(r'Ordering::(is_lt|is_le|is_gt|is_ge|is_eq|is_ne)'), ordering_pred),
    (R(r'Ordering::then_with::<.*'), ordering_then_with), (R(r'Ordering::then'), ordering_then), (R(r'Ordering::reverse'), ordering_reverse),
    (R(r'<(usize|u64|u32|u16|u8|isize|i64|i32) as From<(bool|u8|u16|u32|u64|usize)>>::from'), int_from),
    (R(r'<&*(Version|usize|u64) as Ord>::(max|min)'), ord_max_min),
]
MODELS_NORM = [(re.compile(norm_path(p.pattern)), f) for p, f in _CMP] + MODELS_NORM

# ------------------------------------------------------------------ iterator sources: once / empty / arrays / Option as an iterator; flatten
def as_iter(eng, v):
    """view a value as an IterModel where Rust's IntoIterator would"""
    if isinstance(v, IterModel): return v
    if isinstance(v, EnumV) and set(v.vars) <= {0, 1}:      # Option<T>
        p = opt_payload(v); return IterModel([(opt_is_some(v), p)] if p is not None else [])
    if isinstance(v, VecModel): return vec_into_iter(eng, '', [v], TRUE)
    if isinstance(v, Agg): return IterModel([(TRUE, x) for x in v.f])      # array by value
    if isinstance(v, Ptr): return slice_iter(eng, '', [v], TRUE)
    raise Unsupported(f'not iterable: {v!r}')
def iter_once(eng, c, a, g): return IterModel([(TRUE, a[0])])
def iter_empty(eng, c, a, g): return IterModel([])
def into_iter_generic(eng, c, a, g): return as_iter(eng, a[0])
def iter_flatten(eng, c, a, g):
    items = []
    for (av, v), cn in zip(a[0].items, a[0].consumed):
        if v is None: continue
        inner = as_iter(eng, v)
        items += [(AND(av, NOT(cn), x), y) for x, y in inner.items]
    return IterModel(items)
def vec_extend_any(eng, c, a, g):
    return vec_extend(eng, c, [a[0], as_iter(eng, a[1])], g)
_SRC = [
    (R(r'once::<.*>'), iter_once), (R(r'empty::<.*>'), iter_empty),
    (R(r'<\[.*; \d+\] as IntoIterator>::into_iter'), into_iter_generic), (R(r'<Option<.*> as IntoIterator>::into_iter'), into_iter_generic),
    (R(r'Option::<.*>::(into_iter|iter)'), into_iter_generic),
    (R(r'<.* as Iterator>::flatten'), iter_flatten),
    (R(r'<Vec<.*> as Extend<.*>>::extend::<.*'), vec_extend_any),
]
MODELS_NORM = [(re.compile(norm_path(p.pattern)), f) for p, f in _SRC] + MODELS_NORM

# ------------------------------------------------------------------ Into::into is the blanket impl over From::from (thiserror #[from] impls are in-crate MIR)
def into_via_from(eng, c, a, g):
    m = re.fullmatch(r'<(.+) as Into<(.+)>>::into', c.strip())
    if not m: raise Unsupported('Into::into shape: ' + c)
    return eng.dispatch(f'<{m.group(2)} as From<{m.group(1)}>>::from', a, g, None)
MODELS_NORM = MODELS_NORM + [(re.compile(r'<.+ as Into<.+>>::into'), into_via_from)]

MODELS_NORM = [(re.compile(r'BTreeSet::<&?Url>::insert'), set_insert)] + MODELS_NORM      # membership-bit set over the url universe (iteration order is not used through this model)

# ------------------------------------------------------------------ calling a value of a generic `impl FnOnce(..)` parameter: the value is a closure (or fn item) at run time
MODELS_NORM = [(re.compile(r"<impl Fn(Mut|Once)?\(.*\).* as Fn(Mut|Once)?<.*>>::call(_mut|_once)?"), closure_call)] + MODELS_NORM

# ------------------------------------------------------------------ Url == Url (by value): identity of the atom
def url_eq_val(eng, c, a, g):
    r = EQ(uid(eng, a[0]), uid(eng, a[1]))
    return NOT(r) if c.rstrip().endswith('::ne') else r
MODELS_NORM = MODELS_NORM + [(re.compile(r'<Url as PartialEq>::(eq|ne)'), url_eq_val)]
