"""Driver: ./check <ID> --tier quick|thorough | --replay <path>"""
import os, sys, json, time, random, importlib, hashlib, traceback, multiprocessing as mp
import z3
from .dump import load_mir, dump_mir
from .engine import Unsupported, Mir
from . import harness
from .harness import Inconclusive, run_queries, load_known_findings, VERIF

PROPS = {'C03': 'c03', 'C01': 'c01', 'C20': 'c20', 'C15': 'c15', 'C02': 'c02', 'C14': 'c14', 'C17': 'c17', 'C18': 'c18', 'C06': 'c06', 'C05': 'c05', 'C09': 'c09', 'C08': 'c08'}

_mir_cache = {}
def worker_mir(default_features):
    if default_features not in _mir_cache: _mir_cache[default_features] = load_mir(default_features)
    return _mir_cache[default_features]

def run_cube(args):
    prop, cube, tier, default_features, timeout_ms, replay_dir = args
    t0 = time.time()
    mod = importlib.import_module('mirsym.props.' + PROPS[prop])
    name = mod.cube_name(cube)
    try:
        mir = worker_mir(default_features)
        if cube.get('engine') == 'kani':
            rec = mod.run_cube_custom(mir, cube, tier, replay_dir); rec['cube'] = name
            return rec
        eng, world, base, queries = mod.build(mir, cube)
        if 'qslice' in cube:
            # the obligations of one cube are spread over several workers (each re-encodes, then solves its share)
            i, n = cube['qslice']
            pre = [q for q in queries if q.kind in ('unwind', 'obligation') or q.name == 'no-panic']
            rest = [q for q in queries if q not in pre]
            queries = (pre if i == 0 else []) + [q for k, q in enumerate(rest) if k % n == i]
            name = f'{name}#{i}'
        t1 = time.time()
        known = load_known_findings(prop)
        rec = run_queries(base, queries, mir, timeout_ms, getattr(world, 'has_fc', False), prop, name, known, replay_dir)
        rec.update(encode_s=round(t1 - t0, 2), wall_s=round(time.time() - t0, 2), blocks=eng.stats['blocks'], calls=eng.stats['calls'],
                   fns=sorted(eng.fn_used), models=sorted(eng.models_used), cube_params=cube)
        return rec
    except Unsupported as e:
        return {'cube': name, 'queries': [], 'violations': [], 'known': [], 'inconclusive': [f'unsupported construct: {e}'], 'replayed': 0, 'solver_s': 0, 'wall_s': round(time.time() - t0, 2), 'blocks': 0, 'calls': 0, 'fns': [], 'models': [], 'cube_params': cube}
    except Exception as e:
        return {'cube': name, 'queries': [], 'violations': [], 'known': [], 'inconclusive': [f'internal error: {e}\n{traceback.format_exc()[-1500:]}'], 'replayed': 0, 'solver_s': 0, 'wall_s': round(time.time() - t0, 2), 'blocks': 0, 'calls': 0, 'fns': [], 'models': [], 'cube_params': cube}

def fn_hashes(mir, names):
    return {n: hashlib.sha256(mir.fn_text[n].encode()).hexdigest()[:12] for n in names if n in mir.fn_text}

def main(argv):
    prop = argv[1]
    tier = os.environ.get('VERIF_TIER', 'quick')
    replay = None
    i = 2
    while i < len(argv):
        if argv[i] == '--tier': tier = argv[i + 1]; i += 2
        elif argv[i] == '--replay': replay = argv[i + 1]; i += 2
        else: i += 1
    seed = int(os.environ.get('VERIF_SEED', '0'))
    mod = importlib.import_module('mirsym.props.' + PROPS[prop])
    if replay: return do_replay(prop, mod, replay)
    t0 = time.time()
    default_features = getattr(mod, 'DEFAULT_FEATURES', False)
    try:
        mir = load_mir(default_features, force=True)      # the encoding is regenerated from /repo's current source on every run
    except Exception as e:
        print(f'INCONCLUSIVE property={prop}: MIR dump failed: {e}'); write_evidence(prop, tier, seed, None, [], [f'MIR dump failed: {e}'], time.time() - t0, {}); return 2
    has_fc = 'fast_check' in (mir.structs.get('JsModule') or [])
    cubes = mod.cubes(tier, has_fc)
    nsl = getattr(mod, 'QUERY_SLICES', 1)
    if nsl > 1: cubes = [dict(c, qslice=(i, nsl)) for c in cubes for i in range(nsl)]
    if tier == 'thorough': os.environ.setdefault('VERIF_CROSS_SOLVER', '1')   # two solvers on the cheap unsat verdicts
    timeout_ms = int(os.environ.get('VERIF_QUERY_TIMEOUT_S', '900' if tier == 'quick' else '2400')) * 1000
    replay_dir = os.environ.get('VERIF_CEX', os.path.join(VERIF, 'counterexamples'))
    try: harness.build_replay(has_fc)
    except Inconclusive as e:
        print(f'INCONCLUSIVE property={prop}: {e}'); write_evidence(prop, tier, seed, mir, [], [str(e)], time.time() - t0, {}); return 2
    jobs = [(prop, c, tier, default_features, timeout_ms, replay_dir) for c in cubes]
    nproc = int(os.environ.get('VERIF_JOBS', str(min(14, os.cpu_count() or 4))))
    with mp.Pool(nproc) as pool:
        recs = pool.map(run_cube, jobs, chunksize=1)
    # differential validation of the interpreter against the real crate on concrete worlds
    extra = {}
    inconclusive = [f"{r['cube']}: {x}" for r in recs for x in r['inconclusive']]
    if hasattr(mod, 'differential'):
        try:
            extra['differential'] = mod.differential(mir, seed, 40 if tier == 'quick' else 400)
            if extra['differential']['mismatches']: inconclusive.append(f"differential validation: interpreter and real crate disagree on {extra['differential']['mismatches']} concrete cases: {json.dumps(extra['differential']['examples'])[:1500]}")
        except (Unsupported, Inconclusive) as e:
            inconclusive.append(f'differential validation failed: {e}')
        except Exception as e:
            inconclusive.append(f'differential validation: internal error: {e!r}\n{traceback.format_exc()[-800:]}')
    if getattr(mod, 'BUILD_PROBES', False):
        # the irregular states behind the recorded findings, produced by the real builder (ModuleGraph::build + MemoryLoader)
        try: extra['build_probes'] = harness.run_replay({'world': {'build_probes': True}, 'ops': []}, fast_check=True)
        except Exception as e: extra['build_probes'] = {'error': str(e)[:300]}
    probe_violations = []
    if hasattr(mod, 'native_probes'):
        # build-level regression probes for repaired defects (known_findings.jsonl `fixed:` lines): concrete scenarios run through the real
        # crate; they decide nothing by themselves, but a scenario whose repaired misbehaviour is back is a reproduced violation
        out = []
        for name, payload, expect in mod.native_probes():
            try:
                real = harness.run_replay(payload, fast_check=True)['outputs'][0]
                ok = all(real.get(k) == v for k, v in expect.items())
                out.append({'probe': name, 'expected': expect, 'real': real, 'ok': ok})
                if not ok:
                    os.makedirs(replay_dir, exist_ok=True)
                    path = os.path.join(replay_dir, f'{prop}_probe_{name}.json'); json.dump(payload, open(path, 'w'), indent=1)
                    probe_violations.append({'query': 'probe:' + name, 'replay': path, 'detail': {'expected': expect, 'real': real}})
            except Exception as e:
                out.append({'probe': name, 'error': str(e)[:300]}); inconclusive.append(f'native probe {name} failed to run: {str(e)[:300]}')
        extra['build_probes'] = out
    wall = time.time() - t0
    if probe_violations: recs = recs + [{'cube': 'native-probes', 'queries': [], 'violations': probe_violations, 'known': [], 'inconclusive': [], 'replayed': len(probe_violations), 'solver_s': 0, 'wall_s': 0, 'blocks': 0, 'calls': 0, 'fns': [], 'models': [], 'cube_params': {}}]
    write_evidence(prop, tier, seed, mir, recs, inconclusive, wall, extra, mod)
    violations = [v for r in recs for v in r['violations']]
    for r in recs:
        for k in r['known']: pass
    seen_k = set()
    for r in recs:
        for k in r['known']:
            if k['signature'] in seen_k: continue
            seen_k.add(k['signature']); print(f"KNOWN-FINDING: property={prop} {k['signature']}: {k['what']}")
    nq = sum(len(r['queries']) for r in recs)
    print(f'{prop} tier={tier}: {len(cubes)} cubes, {nq} queries, {len(violations)} violations, {len(inconclusive)} inconclusive, {wall:.0f}s')
    if violations:
        for v in violations[:5]: print(f"VIOLATION property={prop} replay={v['replay']}")
        return 1
    if inconclusive:
        for x in inconclusive[:8]: print('INCONCLUSIVE:', x[:600])
        return 2
    return 0

def write_evidence(prop, tier, seed, mir, recs, inconclusive, wall, extra, mod=None):
    evdir = os.environ.get('VERIF_EVIDENCE', os.path.join(VERIF, 'evidence'))
    os.makedirs(evdir, exist_ok=True)
    queries = [dict(q, cube=r['cube']) for r in recs for q in r['queries']]
    fns = sorted({f for r in recs for f in r['fns']})
    models = sorted({m for r in recs for m in r['models']})
    unsat_props = [q for q in queries if q['verdict'] == 'unsat' and q['kind'] == 'property']
    samples = [q['sample'] for q in queries if 'sample' in q][:3]
    if not samples: samples = [{'cube': r['cube'], 'params': r['cube_params']} for r in recs[:3]] or [{'note': 'no cube ran'}]
    diff = extra.get('differential', {})
    ev = {
        'property_id': prop, 'tier': tier, 'seed': seed, 'level': 'model_checking',
        'coverage': {
            'states': max(1, sum(r['blocks'] for r in recs)),
            'transitions': max(1, sum(r['calls'] for r in recs)),
            'traces_validated_against_impl': sum(r['replayed'] for r in recs) + diff.get('cases', 0),
            'samples': samples,
            'evaluations': max(1, len(queries)), 'distinct_nontrivial': len({(q['cube'], q['name']) for q in unsat_props}),
            'rule': 'one solver query per (cube, obligation); a cube fixes walk-option constants and is otherwise fully symbolic in the graph state; '
                    'non-trivial = a property obligation answered unsat over all states within the bound; states = basic blocks executed symbolically, transitions = calls executed',
            'explanation': getattr(mod, '__doc__', '') or '',
            'engine': 'mirsym: bounded symbolic execution of rustc MIR (-Zunpretty=mir of /repo working tree) decided by z3 ' + z3.get_version_string(),
            'mir_dump': {'path': getattr(mir, 'dump_path', None), 'seconds': getattr(mir, 'dump_secs', None), 'features': sorted(getattr(mir, 'features', []))} if mir else None,
            'functions_encoded': fn_hashes(mir, fns) if mir else {},
            'environment_models': models,
            'bounds': [r['cube_params'] for r in recs],
            'queries': queries,
            'queries_discharged': len([q for q in queries if (q['verdict'] == q['expect'])]),
            'solver_seconds': round(sum(r['solver_s'] for r in recs), 1),
            'known_findings_reproduced': [{'signature': k['signature'], 'query': k['query'], 'example': k['example']} for r in recs for k in r['known']][:6],
            'differential_validation': diff,
            'build_reachability_probes': extra.get('build_probes'),
            'inconclusive': inconclusive[:20],
            'exhaustive': False,
        },
        'assumptions': getattr(mod, 'ASSUMPTIONS', []) if mod else [],
        'wall_s': round(wall, 1),
        'violations': sum(len(r['violations']) for r in recs),
    }
    open(os.path.join(evdir, f'{prop}.json'), 'w').write(json.dumps(ev, indent=1, default=str))

def do_replay(prop, mod, path):
    payload = json.load(open(path))
    has_fc = any('fast_check' in s for s in payload.get('world', {}).get('slots', {}).values() if isinstance(s, dict))
    out = harness.run_replay(payload, fast_check=has_fc)
    print(json.dumps({'ops': payload.get('ops'), 'real': out}, indent=1))
    rep = path + '.report'
    if os.path.exists(rep):
        det = json.load(open(rep))
        from .harness import normalize_real
        reals = [normalize_real(oj, r) for oj, r in zip(payload['ops'], out['outputs'])]
        if reals == det['real']:
            print(f'VIOLATION property={prop} replay={path}'); return 1
        print('the recorded violation no longer reproduces on the current tree'); return 0
    return 0

if __name__ == '__main__':
    try: rc = main(sys.argv)
    except Exception as e:      # a crash of the machinery is never a verdict about the code
        traceback.print_exc(); print(f'INCONCLUSIVE: internal error: {e!r}'); rc = 2
    sys.exit(rc)
