"""Symbolic graph worlds W(N, D, I): an arbitrary ModuleGraph state in the interpreter's representation,
the z3 variables that describe it, the representation invariant, and conversion of a model to world JSON.
"""
import z3
from .engine import *
from .models import *

MEDIA = None  # filled from mir.enums

class Sym:
    """z3 variable factory that records domain constraints; a cube may pin variables to constants"""
    def __init__(self, cube=None):
        self.cons, self.vars, self.cube = [], {}, dict(cube or {})
    def bool(self, name):
        if name in self.cube: v = z3.BoolVal(bool(self.cube[name]))
        else: v = z3.Bool(name)
        self.vars[name] = v; return v
    def bv(self, name, w, lt=None, among=None):
        if name in self.cube: v = BV(int(self.cube[name]), w)
        else:
            v = z3.BitVec(name, w)
            if among is not None: self.cons.append(z3.Or([v == BV(x, w) for x in among]))
            elif lt is not None: self.cons.append(z3.ULT(v, BV(lt, w)))
        self.vars[name] = v; return v

class GraphWorld:
    def __init__(self, mir, sym, N, D, I=0, DI=1, prefix='', fast_check=None, wasm=True, kinds=None):
        self.mir, self.sym, self.N, self.D, self.I, self.DI, self.px = mir, sym, N, D, I, DI, prefix
        self.MT = mir.enums['MediaType']
        self.has_fc = 'fast_check' in (mir.structs.get('JsModule') or []) if fast_check is None else fast_check
        self.ntext = N * D + N + I * DI + (N * D if self.has_fc else 0)
        self.range_ids = {}
        self._build()

    # ---- struct helpers
    def struct(self, name, **fields):
        order = self.mir.structs[name]
        if order is None: raise Unsupported('ambiguous struct ' + name)
        for k in fields:
            if k not in order: raise Unsupported(f'struct {name} has no field {k} in the current source')
        return Agg([fields.get(k, O) for k in order])
    def variant(self, enum, name): return self.mir.enums[enum].index(name)

    def rid(self, key):
        if key not in self.range_ids: self.range_ids[key] = len(self.range_ids) + 1
        return self.range_ids[key]

    def resolution(self, name, referrer, key):
        """symbolic Resolution; returns (value, (kind, target))"""
        s, N = self.sym, self.N
        k = s.bv(name + '_k', 8, lt=3); t = s.bv(name + '_t', 8, lt=N)
        rng = self.struct('Range', specifier=UrlV(BV(referrer, 8)), range=BV(self.rid(key), 16))
        ok = BoxV(self.struct('ResolutionResolved', specifier=UrlV(t), range=rng))
        rerr = self.variant('ResolutionError', 'ResolverError')
        err = BoxV(EnumV(rerr, {rerr: Agg([O, O, rng])}))   # ResolverError { error, specifier, range }
        return EnumV(k, {0: Agg([]), 1: Agg([ok]), 2: Agg([err])}), (k, t, self.rid(key))

    def dependency(self, name, referrer, key):
        s = self.sym
        p = s.bool(name + '_p'); dyn = s.bool(name + '_dyn')
        code, ci = self.resolution(name + '_code', referrer, key + ('code',))
        typ, ti = self.resolution(name + '_type', referrer, key + ('type',))
        dts = s.bool(name + '_dts')
        val = self.struct('Dependency', maybe_code=code, maybe_type=typ, is_dynamic=dyn,
                          maybe_deno_types_specifier=EnumV(IF(dts, BV(1, 8), BV(0, 8)), {0: Agg([]), 1: Agg([O])}))
        return val, {'p': p, 'dyn': dyn, 'code': ci, 'type': ti, 'dts': dts}

    def _build(self):
        s, N, D, px = self.sym, self.N, self.D, self.px
        self.scheme = [s.bv(f'{px}scheme{i}', 8, lt=len(SCHEMES)) for i in range(N)]
        self.text_lower_file = [s.bool(f'{px}textfile{t}') for t in range(self.ntext)]
        self.mods = []
        slot_present, slot_vals = [], []
        for i in range(N):
            m = {}
            deps_p, deps_k, deps_v, m['deps'] = [], [], [], []
            for d in range(D):
                v, info = self.dependency(f'{px}m{i}d{d}', i, ('m', i, d))
                info['text'] = i * D + d
                deps_p.append(info['p']); deps_k.append(TextV(BV(i * D + d, 8))); deps_v.append(v); m['deps'].append(info)
            depmap = SlotMap(deps_p, deps_k, deps_v)
            tdp = s.bool(f'{px}m{i}_tdp'); tdr, tdi = self.resolution(f'{px}m{i}_td', i, ('td', i))
            m['td'] = {'p': tdp, 'res': tdi, 'text': N * D + i}
            td = EnumV(IF(tdp, BV(1, 8), BV(0, 8)), {0: Agg([]), 1: Agg([self.struct('TypesDependency', specifier=TextV(BV(N * D + i, 8)), dependency=tdr)])})
            mt = s.bv(f'{px}m{i}_mt', 8, lt=len(self.MT)); m['mt'] = mt
            jsf = dict(is_script=FALSE, dependencies=depmap, maybe_types_dependency=td, media_type=EnumV(mt, {}), specifier=UrlV(BV(i, 8)))
            if self.has_fc:
                # fast_check: None | Some(Module(Box<FastCheckTypeModule{dependencies,..}>)) | Some(Error(diags))
                fck = s.bv(f'{px}m{i}_fck', 8, lt=3); m['fck'] = fck; m['fcdeps'] = []
                fp, fk, fv = [], [], []
                for d in range(D):
                    v, info = self.dependency(f'{px}m{i}f{d}', i, ('f', i, d))
                    tid = N * D + N + self.I * self.DI + i * D + d
                    info['text'] = tid
                    fp.append(info['p']); fk.append(TextV(BV(tid, 8))); fv.append(v); m['fcdeps'].append(info)
                fcm = BoxV(self.struct('FastCheckTypeModule', dependencies=SlotMap(fp, fk, fv)))
                slot = EnumV(IF(EQ(fck, BV(1, 8)), BV(0, 8), BV(1, 8)), {0: Agg([fcm]), 1: Agg([O])})
                jsf['fast_check'] = EnumV(IF(EQ(fck, BV(0, 8)), BV(0, 8), BV(1, 8)), {0: Agg([]), 1: Agg([slot])})
            js = self.struct('JsModule', **jsf)
            json = self.struct('JsonModule', specifier=UrlV(BV(i, 8)), media_type=EnumV(self.MT.index('Json'), {}))
            wasm = self.struct('WasmModule', specifier=UrlV(BV(i, 8)), dependencies=depmap)
            npm = self.struct('NpmModule', specifier=UrlV(BV(i, 8)))
            node = self.struct('BuiltInNodeModule', specifier=UrlV(BV(i, 8)))
            asset = s.bool(f'{px}m{i}_asset'); m['asset'] = asset
            ext = self.struct('ExternalModule', specifier=UrlV(BV(i, 8)), was_asset_load=asset)
            mk = s.bv(f'{px}m{i}_modkind', 8, lt=6); m['modkind'] = mk
            module = EnumV(mk, {0: Agg([js]), 1: Agg([json]), 2: Agg([wasm]), 3: Agg([npm]), 4: Agg([node]), 5: Agg([ext])})
            missing = s.bool(f'{px}m{i}_missing'); m['missing'] = missing
            ek = self.mir.enums['ModuleErrorKind']
            refp = s.bool(f'{px}m{i}_errref')
            rng = self.struct('Range', specifier=UrlV(BV(0, 8)), range=BV(self.rid(('errref', i)), 16))
            mref = EnumV(IF(refp, BV(1, 8), BV(0, 8)), {0: Agg([]), 1: Agg([rng])})
            m['errref'] = refp
            errkind = EnumV(IF(missing, BV(ek.index('Missing'), 8), BV(ek.index('Load'), 8)),
                            {ek.index('Load'): Agg([UrlV(BV(i, 8)), mref, O]), ek.index('Missing'): Agg([UrlV(BV(i, 8)), mref])})
            err = self.struct('ModuleError') if False else Agg([BoxV(errkind)])
            passet = s.bool(f'{px}m{i}_passet'); m['passet'] = passet
            sk = s.bv(f'{px}m{i}_slotkind', 8, lt=3); m['slotkind'] = sk
            slot_vals.append(EnumV(sk, {0: Agg([module]), 1: Agg([err]), 2: Agg([passet])}))
            sp = s.bool(f'{px}m{i}_present'); m['present'] = sp; slot_present.append(sp)
            rp = s.bool(f'{px}r{i}_p'); rt = s.bv(f'{px}r{i}_t', 8, lt=N)
            m['red'] = (rp, rt)
            self.mods.append(m)
        self.gkind = s.bv(f'{px}graph_kind', 8, lt=3)
        self.rootsel = [s.bool(f'{px}root{i}') for i in range(N)]
        # imports: I entries, referrer = specifier id (distinct, increasing), DI type deps each
        self.imports = []
        ip, ik, iv = [], [], []
        for j in range(self.I):
            p = s.bool(f'{px}imp{j}_p'); ref = s.bv(f'{px}imp{j}_ref', 8, lt=N)
            dp, dk, dv, infos = [], [], [], []
            for d in range(self.DI):
                v, info = self.dependency(f'{px}imp{j}d{d}', 0, ('imp', j, d))
                info['text'] = N * D + N + j * self.DI + d
                dp.append(info['p']); dk.append(TextV(BV(info['text'], 8))); dv.append(v); infos.append(info)
            ip.append(p); ik.append(UrlV(ref)); iv.append(self.struct('GraphImport', dependencies=SlotMap(dp, dk, dv)))
            self.imports.append({'p': p, 'ref': ref, 'deps': infos})
        self.slot_map = MapModel(slot_present, slot_vals)
        self.redirect_map = MapModel([m['red'][0] for m in self.mods], [UrlV(m['red'][1]) for m in self.mods])
        roots = OrdSetModel([BV(i, 8) for i in range(N)], None, self.rootsel)   # placeholder len; see roots_model
        self.graph = self.struct('ModuleGraph', graph_kind=EnumV(self.gkind, {}), roots=self.roots_model(),
                                 module_slots=self.slot_map, imports=SlotMap(ip, ik, iv), redirects=self.redirect_map,
                                 has_node_specifier=s.bool(f'{px}has_node'))
        self.root = Root(self.graph, px + 'graph')
        self.ptr = Ptr([(TRUE, (self.root, ()))])

    def roots_model(self):
        """IndexSet<Url> holding the selected roots in id order (compacted)"""
        N, W = self.N, 8
        items, cnt = [BV(0, 8)] * N, BV(0, W)
        for i in range(N):
            items = [IF(AND(self.rootsel[i], EQ(cnt, BV(k, W))), BV(i, 8), items[k]) for k in range(N)]
            cnt = IF(self.rootsel[i], ADD(cnt, 1), cnt)
        return OrdSetModel(items, cnt, list(self.rootsel))

    # ---- engine configuration
    def configure(self, eng, checkjs=None):
        eng.cfg.update(N=self.N, D=self.D, scheme=self.scheme, text_lower_file=self.text_lower_file)
        eng.cfg['checkjs'] = checkjs if checkjs is not None else [self.sym.bool(f'{self.px}checkjs{i}') for i in range(self.N)]
        eng.cfg.setdefault('DQ', self.N + 1)
        eng.cfg.setdefault('VEC', max(2, 2 * self.D + 1))

    # ---- representation invariant (DESIGN.md section 3)
    def invariant(self, no_slot_at_redirect_source=False):
        cs = []
        for i, m in enumerate(self.mods):
            rp, rt = m['red']
            cs.append(z3.Implies(rp, rt != BV(i, 8)))                       # add_redirect: debug_assert_ne
        code_only = self.gkind == 1
        js_media = ['JavaScript', 'Jsx', 'Mjs', 'Cjs', 'TypeScript', 'Mts', 'Cts', 'Dts', 'Dmts', 'Dcts', 'Tsx']
        for i, m in enumerate(self.mods):                                     # parse_module_source_and_info: only these become JsModule
            cs.append(z3.Or([m['mt'] == self.MT.index(x) for x in js_media]))
        for i, m in enumerate(self.mods):
            for d in m['deps']: cs.append(z3.Implies(code_only, d['type'][0] == 0))
            cs.append(z3.Implies(code_only, z3.Not(m['td']['p'])))
            if self.has_fc: cs.append(z3.Implies(code_only, m['fck'] == 0))
        for imp in self.imports:
            cs.append(z3.Implies(code_only, z3.Not(imp['p'])))
            for d in imp['deps']:                                            # GraphImport::new: type-only, static
                cs.append(d['code'][0] == 0); cs.append(z3.Not(d['dyn']))
        for a in range(len(self.imports)):                                   # IndexMap keys are distinct
            for b in range(a + 1, len(self.imports)):
                cs.append(z3.Implies(z3.And(self.imports[a]['p'], self.imports[b]['p']), self.imports[a]['ref'] != self.imports[b]['ref']))
        if no_slot_at_redirect_source:
            for m in self.mods: cs.append(z3.Not(z3.And(m['red'][0], m['present'])))
        return cs

    # ---- oracle helpers: plain z3 predicates over the world description
    def has_slot(self, i): return self.mods[i]['present']
    def is_module(self, i): return z3.And(self.mods[i]['present'], self.mods[i]['slotkind'] == 0)
    def is_err(self, i): return z3.And(self.mods[i]['present'], self.mods[i]['slotkind'] == 1)
    def is_pending(self, i): return z3.And(self.mods[i]['present'], self.mods[i]['slotkind'] == 2)
    def is_js(self, i): return z3.And(self.is_module(i), self.mods[i]['modkind'] == 0)
    def is_wasm(self, i): return z3.And(self.is_module(i), self.mods[i]['modkind'] == 2)
    def has_deps(self, i): return z3.Or(self.is_js(i), self.is_wasm(i))
    def media_in(self, i, names):
        """media type of module i as Module::media_type() reports it"""
        mk, mt = self.mods[i]['modkind'], self.mods[i]['mt']
        MT = self.MT
        def among(x): return z3.Or([x == MT.index(n) for n in names]) if names else z3.BoolVal(False)
        return z3.If(mk == 0, among(mt), z3.If(mk == 1, z3.BoolVal('Json' in names), z3.If(mk == 2, z3.BoolVal('Wasm' in names),
               z3.If(mk == 4, z3.BoolVal('JavaScript' in names), z3.BoolVal('Unknown' in names)))))

    # ---- model -> JSON
    def to_json(self, model):
        def ev(x, d=0):
            v = model.eval(x, model_completion=True)
            if z3.is_bool(v): return z3.is_true(v)
            return v.as_long()
        def res(info):
            k, t = ev(info[0]), ev(info[1])
            return None if k == 0 else ({'ok': t, 'rid': info[2]} if k == 1 else {'err': True, 'rid': info[2]})
        def dep(info):
            return {'text': info['text'], 'file_text': ev(self.text_lower_file[info['text']]), 'code': res(info['code']), 'type': res(info['type']),
                    'dynamic': ev(info['dyn']), 'deno_types': ev(info['dts'])}
        w = {'n': self.N, 'graph_kind': ['All', 'CodeOnly', 'TypesOnly'][ev(self.gkind)], 'schemes': [SCHEMES[ev(x)] for x in self.scheme],
             'roots': [i for i in range(self.N) if ev(self.rootsel[i])], 'slots': {}, 'redirects': {}, 'imports': [],
             'has_node_specifier': ev(self.sym.vars[f'{self.px}has_node'])}
        for i, m in enumerate(self.mods):
            if ev(m['red'][0]): w['redirects'][str(i)] = ev(m['red'][1])
            if not ev(m['present']): continue
            sk = ev(m['slotkind'])
            if sk == 1: w['slots'][str(i)] = {'kind': 'err', 'missing': ev(m['missing']), 'has_referrer': ev(m['errref']), 'referrer_rid': self.rid(('errref', i))}
            elif sk == 2: w['slots'][str(i)] = {'kind': 'pending', 'is_asset': ev(m['passet'])}
            else:
                mk = ev(m['modkind'])
                kind = ['js', 'json', 'wasm', 'npm', 'node', 'external'][mk]
                e = {'kind': kind}
                if kind in ('js', 'wasm'):
                    e['deps'] = [dep(d) for d in m['deps'] if ev(d['p'])]
                if kind == 'js':
                    e['media_type'] = self.MT[ev(m['mt'])]
                    if ev(m['td']['p']): e['types_dep'] = {'text': m['td']['text'], 'file_text': ev(self.text_lower_file[m['td']['text']]), 'res': res(m['td']['res'])}
                    if self.has_fc:
                        fck = ev(m['fck'])
                        if fck == 1: e['fast_check'] = {'deps': [dep(d) for d in m['fcdeps'] if ev(d['p'])]}
                        elif fck == 2: e['fast_check'] = {'error': True}
                if kind == 'external': e['was_asset_load'] = ev(m['asset'])
                w['slots'][str(i)] = e
        for imp in self.imports:
            if ev(imp['p']): w['imports'].append({'referrer': ev(imp['ref']), 'deps': [dep(d) for d in imp['deps'] if ev(d['p'])]})
        return w

# ---------------------------------------------------------------- concrete worlds (differential validation)
def cube_from_json(w, N, D, I=0, DI=1, px='', has_fc=False, MT=None):
    """variable assignment that pins a GraphWorld to the concrete world JSON `w`"""
    c = {}
    KINDS = ['All', 'CodeOnly', 'TypesOnly']
    c[f'{px}graph_kind'] = KINDS.index(w['graph_kind'])
    c[f'{px}has_node'] = w.get('has_node_specifier', False)
    ntext = N * D + N + I * DI + (N * D if has_fc else 0)
    for t in range(ntext): c[f'{px}textfile{t}'] = False
    def res(name, r):
        if r is None: c[name + '_k'] = 0; c[name + '_t'] = 0
        elif 'ok' in r: c[name + '_k'] = 1; c[name + '_t'] = r['ok']
        else: c[name + '_k'] = 2; c[name + '_t'] = 0
    def dep(name, d, text):
        if d is None:
            c[name + '_p'] = False; c[name + '_dyn'] = False; c[name + '_dts'] = False
            res(name + '_code', None); res(name + '_type', None); return
        c[name + '_p'] = True; c[name + '_dyn'] = d['dynamic']; c[name + '_dts'] = d.get('deno_types', False)
        res(name + '_code', d['code']); res(name + '_type', d['type'])
        c[f'{px}textfile{text}'] = d.get('file_text', False)
    for i in range(N):
        c[f'{px}scheme{i}'] = SCHEMES.index(w['schemes'][i])
        c[f'{px}root{i}'] = i in w['roots']
        r = w['redirects'].get(str(i))
        c[f'{px}r{i}_p'] = r is not None; c[f'{px}r{i}_t'] = r if r is not None else 0
        s = w['slots'].get(str(i))
        c[f'{px}m{i}_present'] = s is not None
        kind = s['kind'] if s else 'json'
        c[f'{px}m{i}_slotkind'] = {'err': 1, 'pending': 2}.get(kind, 0)
        c[f'{px}m{i}_modkind'] = {'js': 0, 'json': 1, 'wasm': 2, 'npm': 3, 'node': 4, 'external': 5}.get(kind, 1)
        c[f'{px}m{i}_missing'] = bool(s and s.get('missing')); c[f'{px}m{i}_errref'] = bool(s and s.get('has_referrer'))
        c[f'{px}m{i}_passet'] = bool(s and s.get('is_asset')); c[f'{px}m{i}_asset'] = bool(s and s.get('was_asset_load'))
        c[f'{px}m{i}_mt'] = MT.index(s.get('media_type', 'JavaScript')) if s else 0
        deps = (s.get('deps') or []) if s else []
        bypos = {d['text'] - i * D: d for d in deps}
        for d in range(D): dep(f'{px}m{i}d{d}', bypos.get(d), i * D + d)
        td = s.get('types_dep') if s else None
        c[f'{px}m{i}_tdp'] = td is not None
        res(f'{px}m{i}_td', td['res'] if td else None)
        if td: c[f'{px}textfile{N * D + i}'] = td.get('file_text', False)
        if has_fc:
            fc = s.get('fast_check') if s else None
            c[f'{px}m{i}_fck'] = 0 if fc is None else (2 if 'error' in fc else 1)
            base = N * D + N + I * DI + i * D
            fbypos = {d['text'] - base: d for d in (fc.get('deps') or [])} if fc and 'deps' in fc else {}
            for d in range(D): dep(f'{px}m{i}f{d}', fbypos.get(d), base + d)
    imps = w.get('imports') or []
    for j in range(I):
        imp = imps[j] if j < len(imps) else None
        c[f'{px}imp{j}_p'] = imp is not None; c[f'{px}imp{j}_ref'] = imp['referrer'] if imp else 0
        base = N * D + N + j * DI
        bypos = {d['text'] - base: d for d in imp['deps']} if imp else {}
        for d in range(DI): dep(f'{px}imp{j}d{d}', bypos.get(d), base + d)
    return c

def random_world(rng, N, D, I=0, DI=1, has_fc=False, MT=None, invariant=True):
    """random concrete world JSON (same shape as GraphWorld.to_json output, without rids)"""
    def res():
        k = rng.choice([0, 1, 1, 1, 2])
        return None if k == 0 else ({'ok': rng.randrange(N)} if k == 1 else {'err': True})
    kind = rng.choice(['All', 'CodeOnly', 'TypesOnly'])
    co = kind == 'CodeOnly' and invariant
    def dep(text, imp=False):
        if imp: return {'text': text, 'file_text': rng.random() < 0.2, 'code': None, 'type': res(), 'dynamic': False, 'deno_types': False}
        return {'text': text, 'file_text': rng.random() < 0.2, 'code': res(), 'type': None if co else res(), 'dynamic': rng.random() < 0.3, 'deno_types': rng.random() < 0.2}
    w = {'n': N, 'graph_kind': kind, 'schemes': [rng.choice(['https', 'http', 'file', 'https', 'data', 'npm']) for _ in range(N)],
         'roots': [i for i in range(N) if rng.random() < 0.5], 'slots': {}, 'redirects': {}, 'imports': [], 'has_node_specifier': rng.random() < 0.3}
    for i in range(N):
        if rng.random() < 0.35:
            t = rng.randrange(N)
            if t != i: w['redirects'][str(i)] = t
        if rng.random() < 0.8:
            k = rng.choice(['js', 'js', 'js', 'js', 'json', 'wasm', 'npm', 'node', 'external', 'err', 'err', 'pending'])
            e = {'kind': k}
            if k == 'err': e.update(missing=rng.random() < 0.5, has_referrer=rng.random() < 0.5)
            if k == 'pending': e['is_asset'] = rng.random() < 0.5
            if k == 'external': e['was_asset_load'] = rng.random() < 0.5
            if k in ('js', 'wasm'): e['deps'] = [dep(i * D + d) for d in range(D) if rng.random() < 0.8]
            if k == 'js':
                e['media_type'] = rng.choice(['JavaScript', 'Jsx', 'Mjs', 'Cjs', 'TypeScript', 'Mts', 'Cts', 'Dts', 'Dmts', 'Dcts', 'Tsx'])
                if rng.random() < 0.3 and not co: e['types_dep'] = {'text': N * D + i, 'file_text': rng.random() < 0.2, 'res': res()}
                if has_fc and not co and rng.random() < 0.4:
                    base = N * D + N + I * DI + i * D
                    e['fast_check'] = {'error': True} if rng.random() < 0.3 else {'deps': [dep(base + d) for d in range(D) if rng.random() < 0.7]}
            w['slots'][str(i)] = e
    used = set()
    for j in range(I):
        if co or rng.random() < 0.4: break
        r = rng.randrange(N)
        if r in used: break
        used.add(r)
        base = N * D + N + j * DI
        w['imports'].append({'referrer': r, 'deps': [dep(base + d, True) for d in range(DI) if rng.random() < 0.8]})
    return w
