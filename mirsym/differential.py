"""Validation of the encoder (not the deciding step): the interpreter runs on concrete worlds (every term folds to a
constant) and its outputs are compared with what the real crate answers through the replay binary."""
import random, z3, time
from .engine import *
from .models import *
from .world import GraphWorld, Sym, cube_from_json, random_world
from .ops import *
from .harness import run_replay, normalize_real, normalize_decoded

def graph_differential(mir, seed, count, N=4, D=2, I=1, extra_ops=None):
    rng = random.Random(1000 + seed)
    MT = mir.enums['MediaType']
    has_fc = 'fast_check' in (mir.structs.get('JsModule') or [])
    s = z3.Solver(); s.check(); M0 = s.model()
    cases, decoded = [], []
    t0 = time.time()
    for c in range(count):
        n = rng.choice([2, 3, N]); d = rng.choice([1, D])
        wj = random_world(rng, n, d, I, 1, has_fc, MT)
        sym = Sym(cube_from_json(wj, n, d, I, 1, '', has_fc, MT))
        w = GraphWorld(mir, sym, n, d, I)
        eng = Engine(mir, usize_bits=8, unroll=4 * n + 4 * d + 8)
        w.configure(eng)
        eng.cfg['VEC'] = 2 * d + 2
        wj2 = w.to_json(M0)
        fixed = {'kind': rng.randrange(3), 'cj': rng.randrange(3), 'fd': rng.random() < 0.5, 'pfc': rng.random() < 0.5}
        osym = Sym({f'w_cjbit{i}': rng.random() < 0.5 for i in range(n)})
        opts = WalkOptions(w, osym, 'w', fixed)
        rootsel = [z3.BoolVal(rng.random() < 0.5) for i in range(n)]
        ops = [Walk(eng, w, opts, rootsel, n + 2), Validate(eng, w, opts, rootsel), Validate(eng, w, use_valid=True)]
        x = BV(rng.randrange(n), 8)
        for nm in ['resolve', 'get', 'contains', 'try_get', 'try_get_prefer_types']: ops.append(Lookup(eng, w, nm, x))
        ops.append(Specifiers(eng, w))
        ops.append(ResolveDependency(eng, w, BV(rng.randrange(w.ntext), 8), BV(rng.randrange(n), 8), z3.BoolVal(rng.random() < 0.5)))
        if extra_ops: ops += extra_ops(eng, w, rng)
        trunc = [f for f, g in eng.exceeded if not z3.is_false(g)]
        if trunc: raise Unsupported(f'differential: unwinding bound exceeded in {trunc[:2]}')
        oj = [o.op_json(M0) for o in ops]
        cases.append({'world': wj2, 'ops': oj})
        decoded.append([normalize_decoded(j, o.decode(M0), mir) for j, o in zip(oj, ops)])
    out = run_replay({'cases': cases}, fast_check=has_fc)
    bad, examples, nops = 0, [], 0
    for case, dec, real in zip(cases, decoded, out['cases']):
        for op, d, r in zip(case['ops'], dec, real['outputs']):
            nops += 1
            r2 = normalize_real(op, r)
            if d != r2:
                bad += 1
                if len(examples) < 3: examples.append({'op': op, 'interpreter': d, 'real': r2, 'world': case['world']})
    return {'cases': count, 'operations_compared': nops, 'mismatches': bad, 'examples': examples, 'seconds': round(time.time() - t0, 1), 'seed': seed}
