"""Oracles written from the property statements (never from the code under test): plain z3 formulas over the
description variables of a GraphWorld."""
import z3
from .models import SCHEMES

TS_LIKE = ['TypeScript', 'Mts', 'Cts', 'Dts', 'Dmts', 'Dcts', 'Tsx', 'Json', 'Wasm']
JS_LIKE = ['JavaScript', 'Jsx', 'Mjs', 'Cjs']

def Or(xs):
    xs = list(xs); return z3.Or(xs) if xs else z3.BoolVal(False)
def And(xs):
    xs = list(xs); return z3.And(xs) if xs else z3.BoolVal(True)

class WalkOracle:
    """Reachability under walk options (C15) and the failure predicate of validation (C02)."""
    def __init__(self, w, opts, rootsel, skipset=None, use_imports=True):
        self.w, self.o, self.rootsel = w, opts, rootsel
        N = w.N
        self.N = N
        self.inc_types = opts.kind != 1
        self.types_only = opts.kind == 2
        self.skipset = skipset or [z3.BoolVal(False)] * N
        self.use_imports = use_imports
        self._build()

    def checkable(self, i):
        """can module i be type checked (media type as the module reports it; JS only with check_js)"""
        w = self.w
        return z3.Or(w.media_in(i, TS_LIKE), z3.And(w.media_in(i, JS_LIKE), self.o.checkjs_for(i)))

    def res_ok(self, info, j=None):
        return info[0] == 1 if j is None else z3.And(info[0] == 1, info[1] == j)

    def depmap(self, i):
        """[(selector, dependency infos)]: which dependency map of module i the walk uses"""
        w, m = self.w, self.w.mods[i]
        if not w.has_fc: return [(z3.BoolVal(True), m['deps'])]
        use_fc = z3.And(w.is_js(i), self.inc_types, self.checkable(i), self.o.pfc, m['fck'] == 1)
        return [(z3.Not(use_fc), m['deps']), (use_fc, m['fcdeps'])]

    def _build(self):
        w, N, o = self.w, self.N, self.o
        has_slot = [w.has_slot(i) for i in range(N)]
        self.is_mod = [w.is_module(i) for i in range(N)]
        self.is_err = [w.is_err(i) for i in range(N)]
        self.is_js = [w.is_js(i) for i in range(N)]
        self.td_ok = [z3.And(self.is_js[i], w.mods[i]['td']['p'], w.mods[i]['td']['res'][0] == 1) for i in range(N)]
        # types-only walks: an untyped module is replaced by its types dependency; an uncheckable JS module is skipped
        self.replaced = [z3.And(self.is_js[i], self.types_only, z3.Or(self.td_ok[i], z3.Not(self.checkable(i)))) for i in range(N)]
        self.is_redirect = [z3.And(z3.Not(has_slot[i]), w.mods[i]['red'][0]) for i in range(N)]
        self.entry_module = [z3.And(self.is_mod[i], z3.Not(self.replaced[i])) for i in range(N)]
        def follow(d): return z3.And(d['p'], z3.Or(z3.Not(d['dyn']), o.fd))
        def early(i, j):     # followed as soon as i is taken from the queue (before it is yielded)
            return z3.And(self.inc_types, self.td_ok[i], w.mods[i]['td']['res'][1] == j)
        def late(i, j):      # followed when the walk is advanced past the yielded entry i
            es = [z3.And(self.is_redirect[i], z3.Not(self.skipset[i]), w.mods[i]['red'][1] == j)]
            for sel, deps in self.depmap(i):
                for d in deps:
                    f = z3.And(self.entry_module[i], w.has_deps(i), z3.Not(self.skipset[i]), sel, follow(d))
                    es.append(z3.And(f, self.res_ok(d['code'], j)))
                    es.append(z3.And(f, self.inc_types, self.res_ok(d['type'], j)))
            return z3.Or(es)
        self.E_early = [[early(i, j) for j in range(N)] for i in range(N)]
        self.E_late = [[late(i, j) for j in range(N)] for i in range(N)]
        self.E = [[z3.Or(self.E_early[i][j], self.E_late[i][j]) for j in range(N)] for i in range(N)]
        seed = list(self.rootsel)
        if self.use_imports:
            for j in range(N):
                extra = []
                for imp in w.imports:
                    for d in imp['deps']:
                        extra.append(z3.And(imp['p'], d['p'], self.res_ok(d['code'], j)))
                        extra.append(z3.And(imp['p'], d['p'], self.inc_types, self.res_ok(d['type'], j)))
                if extra: seed[j] = z3.Or([seed[j]] + extra)
        self.seed = list(seed)
        reach = seed
        for _ in range(N - 1):
            reach = [z3.Or(reach[j], Or(z3.And(reach[i], self.E[i][j]) for i in range(N) if i != j)) for j in range(N)]
        self.reach = reach
        self.yields = [z3.And(reach[i], z3.Or(self.is_err[i], self.entry_module[i], self.is_redirect[i])) for i in range(N)]

    # ---- expected entry kind of a yielded specifier: 0 module, 1 err, 2 redirect
    def entry_tag(self, i):
        return z3.If(self.is_redirect[i], z3.BitVecVal(2, 8), z3.If(self.is_err[i], z3.BitVecVal(1, 8), z3.BitVecVal(0, 8)))

    # ---- C02: failures
    def final_of(self, j):
        """the specifier a walk reaches from j: redirects are followed only where no entry exists (N hops suffice)"""
        w, N = self.w, self.N
        cur = z3.BitVecVal(j, 8) if isinstance(j, int) else j
        for _ in range(N):
            nxt = cur
            for k in range(N): nxt = z3.If(z3.And(cur == k, z3.Not(w.has_slot(k)), w.mods[k]['red'][0]), w.mods[k]['red'][1], nxt)
            cur = nxt
        return cur

    def missing_at(self, t):
        w, N = self.w, self.N
        return Or(z3.And(t == k, self.is_err[k], w.mods[k]['missing']) for k in range(N))

    def edge_failure(self, i, text, res, in_place=True):
        """does resolution `res` (kind,target) of text atom `text`, written in module i, fail validation"""
        w, o, N = self.w, self.o, self.N
        sch = w.scheme
        def scheme_is(u, name): return Or(z3.And(u == k, sch[k] == SCHEMES.index(name)) for k in range(N))
        ref_https = sch[i] == SCHEMES.index('https'); ref_http = sch[i] == SCHEMES.index('http')
        t = res[1]
        downgrade = z3.And(ref_https, scheme_is(t, 'http'))
        local = z3.And(z3.Or(ref_https, ref_http), scheme_is(t, 'file'), w.text_lower_file[text])
        fails = [res[0] == 2, z3.And(res[0] == 1, z3.Or(downgrade, local))]
        if in_place:
            fails.append(z3.And(res[0] == 1, z3.Not(downgrade), z3.Not(local), o.fd, self.missing_at(self.final_of(t))))
        return z3.Or(fails)

    def failures(self, in_place):
        """list of (condition, description) of reachable failures.
        in_place=True: missing modules are reported at the referring edge when dynamic imports are followed (the
        documented behaviour of walks with follow_dynamic); in_place=False: the literal statement (any reachable error entry)."""
        w, o, N = self.w, self.o, self.N
        out = []
        for i in range(N):
            visited_err = z3.And(self.yields[i], self.is_err[i])
            if in_place: out.append((z3.And(visited_err, z3.Not(z3.And(o.fd, w.mods[i]['missing']))), ('entry', i)))
            else: out.append((visited_err, ('entry', i)))
            vis_mod = z3.And(self.yields[i], self.entry_module[i])
            td = w.mods[i]['td']
            out.append((z3.And(vis_mod, self.is_js[i], self.inc_types, td['p'], self.edge_failure(i, td['text'], td['res'], in_place)), ('td', i, td['text'], td['res'])))
            check_types = z3.And(self.inc_types, self.checkable(i))
            for sel, deps in self.depmap(i):
                for d in deps:
                    f = z3.And(vis_mod, w.has_deps(i), sel, d['p'], z3.Or(z3.Not(d['dyn']), o.fd))
                    out.append((z3.And(f, self.edge_failure(i, d['text'], d['code'], in_place)), ('code', i, d['text'], d['code'])))
                    out.append((z3.And(f, check_types, self.edge_failure(i, d['text'], d['type'], in_place)), ('type', i, d['text'], d['type'])))
        return out


def redirects_regular(w):
    """no entry stored at a redirect source and no redirect cycle: the states on which following redirects first
    (lookups) and looking at entries first (walks) cannot disagree"""
    N = w.N
    cs = [z3.Not(z3.And(w.mods[i]['red'][0], w.has_slot(i))) for i in range(N)]
    # acyclic: closure of the redirect relation
    R = [[z3.And(w.mods[i]['red'][0], w.mods[i]['red'][1] == j) for j in range(N)] for i in range(N)]
    for _ in range(max(1, (N - 1).bit_length())):
        R = [[z3.Or([R[i][j]] + [z3.And(R[i][k], R[k][j]) for k in range(N)]) for j in range(N)] for i in range(N)]
    cs += [z3.Not(R[i][i]) for i in range(N)]
    return z3.And(cs)
