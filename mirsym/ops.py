"""Operations on a graph world: symbolic execution of the real entry points through the interpreter,
the matching JSON description for the native replay binary, and decoding of results under a model."""
import z3
from .engine import *
from .models import *

KINDS = ['All', 'CodeOnly', 'TypesOnly']

def ev(model, x):
    v = model.eval(x, model_completion=True)
    if z3.is_bool(v): return z3.is_true(v)
    return v.as_long()

class WalkOptions:
    """symbolic WalkOptions; check_js: 0 True, 1 False, 2 Custom(bits per specifier)"""
    def __init__(self, world, sym, name='w', fixed=None):
        fixed = fixed or {}
        self.world = world
        self.kind = BV(fixed['kind'], 8) if 'kind' in fixed else sym.bv(name + '_kind', 8, lt=3)
        self.cj = BV(fixed['cj'], 8) if 'cj' in fixed else sym.bv(name + '_cj', 8, lt=3)
        self.fd = z3.BoolVal(fixed['fd']) if 'fd' in fixed else sym.bool(name + '_fd')
        self.pfc = z3.BoolVal(fixed['pfc']) if 'pfc' in fixed else sym.bool(name + '_pfc')
        self.cjbits = [sym.bool(f'{name}_cjbit{i}') for i in range(world.N)]
    def value(self):
        return self.world.struct('WalkOptions', check_js=EnumV(self.cj, {2: Agg([CheckJsV(self.cjbits)])}), follow_dynamic=self.fd,
                                 kind=EnumV(self.kind, {}), prefer_fast_check_graph=self.pfc)
    def checkjs_for(self, i):
        return z3.If(self.cj == 0, True, z3.If(self.cj == 1, False, self.cjbits[i]))
    def to_json(self, model):
        cj = ev(model, self.cj)
        return {'kind': KINDS[ev(model, self.kind)], 'follow_dynamic': ev(model, self.fd), 'prefer_fast_check_graph': ev(model, self.pfc),
                'check_js': True if cj == 0 else (False if cj == 1 else [ev(model, b) for b in self.cjbits])}

def roots_iter(world, sel):
    return IterModel([(sel[i], url_ref(BV(i, 8))) for i in range(world.N)])

class Walk:
    """ModuleGraph::walk(roots, options) followed by `steps` calls of next(); optional skip_previous_dependencies"""
    def __init__(self, eng, world, opts, rootsel, steps, skip=None, graph_ptr=None):
        mir = eng.mir
        self.world, self.opts, self.rootsel = world, opts, rootsel
        gp = graph_ptr or world.ptr
        it = eng.call(mir.find('ModuleGraph', 'walk'), [gp, roots_iter(world, rootsel), opts.value()], TRUE)
        self.itroot = Root(it, 'walk-iter'); self.itptr = Ptr([(TRUE, (self.itroot, ()))])
        NEXT = mir.find('ModuleEntryIterator', 'next', 'Iterator')
        SKIP = mir.find('ModuleEntryIterator', 'skip_previous_dependencies')
        self.ys, self.skip = [], skip or []
        for k in range(steps):
            r = eng.call(NEXT, [self.itptr], TRUE)
            is_some = opt_is_some(r)
            pair = opt_payload(r)
            if pair is None or z3.is_false(is_some):
                self.ys.append({'some': FALSE, 'id': BV(0, 8), 'tag': BV(0, 8), 'red_to': BV(0, 8), 'entry': None}); continue
            yid = uid(eng, pair.f[0]); entry = pair.f[1]
            tgt = None
            # entry: ModuleEntryRef { Module(&Module)=0, Err(&ModuleError)=1, Redirect(&Url)=2 }
            red_to = uid(eng, entry.vars[2].f[0]) if 2 in entry.vars and entry.vars[2].f and entry.vars[2].f[0] is not None else BV(0, 8)
            self.ys.append({'some': is_some, 'id': yid, 'tag': entry.tag, 'red_to': red_to, 'entry': entry})
            if k < len(self.skip):
                eng.call(SKIP, [self.itptr], self.skip[k])
        self.eng = eng
    def got(self, i):
        return z3.Or([z3.And(y['some'], y['id'] == i) for y in self.ys])
    def got_tag(self, i, tag):
        return z3.Or([z3.And(y['some'], y['id'] == i, y['tag'] == tag) for y in self.ys])
    def decode(self, model):
        out = []
        for y in self.ys:
            if not ev(model, y['some']): break
            tag = ev(model, y['tag'])
            out.append([ev(model, y['id']), ['module', 'err', 'redirect'][tag]] + ([ev(model, y['red_to'])] if tag == 2 else []))
        return out
    def op_json(self, model):
        d = {'op': 'walk', 'roots': [i for i in range(self.world.N) if ev(model, self.rootsel[i])]}
        d.update(self.opts.to_json(model))
        d['skip_after'] = [k for k, g in enumerate(self.skip) if ev(model, g)]
        return d

def graph_error_fields(eng, e):
    """decode a ModuleGraphError value into z3 terms: cat (0 module,1 resolution,2 types), kind, specifier id, range id"""
    mir = eng.mir
    cat = e.tag
    # ModuleError(Box<ModuleErrorKind>)
    out = {'cat': cat}
    me = e.vars.get(0)
    mkind = spec_m = rid_m = None
    if me and me.f and me.f[0] is not None:
        box = me.f[0]           # ModuleError = Agg([BoxV(kind)])
        kind = box.f[0].val if isinstance(box, Agg) else box.val
        mkind = kind.tag
        ek = mir.enums['ModuleErrorKind']
        spec_m, rid_m = BV(255, 8), BV(0, 16)
        for vi, payload in kind.vars.items():
            if payload.f and isinstance(payload.f[0], UrlV): spec_m = IF(EQ(kind.tag, BV(vi, 8)), payload.f[0].id, spec_m)
            if ek[vi] == 'MissingDynamic' and len(payload.f) > 1 and isinstance(payload.f[1], Agg):
                rid_m = IF(EQ(kind.tag, BV(vi, 8)), payload.f[1].f[1], rid_m)
    rkind = spec_r = rid_r = None
    for ci in (1, 2):
        re_ = e.vars.get(ci)
        if re_ and re_.f and isinstance(re_.f[0], EnumV):
            r = re_.f[0]
            rk, sp, rd = r.tag, BV(255, 8), BV(0, 16)
            for vi, payload in r.vars.items():
                for f in payload.f:
                    if isinstance(f, UrlV): sp = IF(EQ(r.tag, BV(vi, 8)), f.id, sp)
                    if isinstance(f, Agg) and len(f.f) == 3 and z3.is_expr(f.f[1]): rd = IF(EQ(r.tag, BV(vi, 8)), f.f[1], rd)
            sel = EQ(cat, BV(ci, 8))
            rkind = rk if rkind is None else IF(sel, rk, rkind)
            spec_r = sp if spec_r is None else IF(sel, sp, spec_r)
            rid_r = rd if rid_r is None else IF(sel, rd, rid_r)
    is_mod = EQ(cat, BV(0, 8))
    def pick(a, b, w):
        if a is None and b is None: return BV(0, w)
        if a is None: return b
        if b is None: return a
        return IF(is_mod, a, b)
    out['kind'] = pick(mkind, rkind, 8); out['spec'] = pick(spec_m, spec_r, 8); out['rid'] = pick(rid_m, rid_r, 16)
    return out

class Validate:
    """walk(..).validate() (or ModuleGraph::valid()): Result<(), ModuleGraphError>"""
    def __init__(self, eng, world, opts=None, rootsel=None, use_valid=False, graph_ptr=None):
        mir = eng.mir
        self.world, self.opts, self.rootsel, self.use_valid = world, opts, rootsel, use_valid
        gp = graph_ptr or world.ptr
        if use_valid:
            r = eng.call(mir.find('ModuleGraph', 'valid'), [gp], TRUE)
        else:
            it = eng.call(mir.find('ModuleGraph', 'walk'), [gp, roots_iter(world, rootsel), opts.value()], TRUE)
            r = eng.call(mir.find('ModuleEntryIterator', 'validate'), [it], TRUE)
        self.is_err = r.is_variant(1)
        self.err = graph_error_fields(eng, r.vars[1].f[0]) if 1 in r.vars and r.vars[1].f and r.vars[1].f[0] is not None else None
    def decode(self, model):
        if not ev(model, self.is_err): return {'ok': True}
        e = self.err
        return {'ok': False, 'error': {'cat': ['module', 'resolution', 'types_resolution'][ev(model, e['cat'])], 'kind': ev(model, e['kind']),
                                       'specifier': ev(model, e['spec']), 'rid': ev(model, e['rid'])}}
    def op_json(self, model):
        if self.use_valid: return {'op': 'valid'}
        d = {'op': 'validate', 'roots': [i for i in range(self.world.N) if ev(model, self.rootsel[i])]}
        d.update(self.opts.to_json(model)); return d

class Lookup:
    """resolve / get / contains / try_get / try_get_prefer_types on a symbolic specifier"""
    def __init__(self, eng, world, name, x, graph_ptr=None):
        mir = eng.mir
        self.world, self.name, self.x = world, name, x
        r = eng.call(mir.find('ModuleGraph', name), [graph_ptr or world.ptr, url_ref(x)], TRUE)
        self.raw = r
        if name == 'resolve': self.result = uid(eng, r)
        elif name == 'contains': self.result = r
        elif name == 'get':
            self.some = opt_is_some(r); p = opt_payload(r)
            self.mod_spec = module_specifier_id(eng, p) if p is not None else BV(255, 8)
        else:
            # Result<Option<&Module>, &ModuleError>
            self.is_err = r.is_variant(1)
            okp = r.vars[0].f[0] if 0 in r.vars and r.vars[0].f else None
            self.some = AND(NOT(self.is_err), opt_is_some(okp)) if okp is not None else FALSE
            mp = opt_payload(okp) if okp is not None else None
            self.mod_spec = module_specifier_id(eng, mp) if mp is not None else BV(255, 8)
            ep = r.vars[1].f[0] if 1 in r.vars and r.vars[1].f else None
            self.err_spec = module_error_specifier_id(eng, ep) if ep is not None else BV(255, 8)
    def decode(self, model):
        n = self.name
        if n == 'resolve': return {'result': ev(model, self.result)}
        if n == 'contains': return {'result': ev(model, self.result)}
        if n == 'get': return {'result': ev(model, self.mod_spec) if ev(model, self.some) else None}
        if ev(model, self.is_err): return {'err': ev(model, self.err_spec)}
        return {'ok': ev(model, self.mod_spec) if ev(model, self.some) else None}
    def op_json(self, model): return {'op': self.name, 'spec': ev(model, self.x)}

def module_specifier_id(eng, mref):
    """specifier id of a &Module value (via the real Module::specifier)"""
    r = eng.call(eng.mir.find('Module', 'specifier'), [mref], TRUE)
    return uid(eng, r)
def module_error_specifier_id(eng, eref):
    e = eng.load(eref) if isinstance(eref, Ptr) else eref
    kind = e.f[0].val
    sp = BV(255, 8)
    for vi, payload in kind.vars.items():
        if payload.f and isinstance(payload.f[0], UrlV): sp = IF(EQ(kind.tag, BV(vi, 8)), payload.f[0].id, sp)
    return sp

class Specifiers:
    def __init__(self, eng, world, graph_ptr=None):
        it = eng.call(eng.mir.find('ModuleGraph', 'specifiers'), [graph_ptr or world.ptr], TRUE)
        self.world = world
        self.items = []
        for av, v in it.items:
            if v is None: continue
            sid = uid(eng, v.f[0]); res = v.f[1]   # Result<&Module, &ModuleError>
            is_err = res.is_variant(1)
            mp = res.vars[0].f[0] if 0 in res.vars and res.vars[0].f else None
            ep = res.vars[1].f[0] if 1 in res.vars and res.vars[1].f else None
            ms = module_specifier_id(eng, mp) if mp is not None else BV(255, 8)
            es = module_error_specifier_id(eng, ep) if ep is not None else BV(255, 8)
            self.items.append({'avail': av, 'id': sid, 'is_err': is_err, 'target': IF(is_err, es, ms)})
    def listed(self, i, is_err=None, target=None):
        cs = []
        for it in self.items:
            c = [it['avail'], it['id'] == i]
            if is_err is not None: c.append(it['is_err'] == is_err)
            if target is not None: c.append(it['target'] == target)
            cs.append(z3.And(c))
        return z3.Or(cs) if cs else z3.BoolVal(False)
    def decode(self, model):
        return sorted([ev(model, it['id']), 'err' if ev(model, it['is_err']) else 'ok', ev(model, it['target'])] for it in self.items if ev(model, it['avail']))
    def op_json(self, model): return {'op': 'specifiers'}

class ResolveDependency:
    def __init__(self, eng, world, text, referrer, prefer_types, graph_ptr=None):
        self.world, self.text, self.referrer, self.prefer = world, text, referrer, prefer_types
        r = eng.call(eng.mir.find('ModuleGraph', 'resolve_dependency'), [graph_ptr or world.ptr, ref_to(TextV(text), 'text'), url_ref(referrer), prefer_types], TRUE)
        self.some = opt_is_some(r); p = opt_payload(r)
        self.result = uid(eng, p) if p is not None else BV(255, 8)
    def decode(self, model): return {'result': ev(model, self.result) if ev(model, self.some) else None}
    def op_json(self, model):
        t = ev(model, self.text)
        return {'op': 'resolve_dependency', 'text': t, 'file_text': ev(model, self.world.text_lower_file[t]) if t < len(self.world.text_lower_file) else False,
                'referrer': ev(model, self.referrer), 'prefer_types': ev(model, self.prefer)}

# ---------------------------------------------------------------- graph state decoding (post-states of prune_types / segment)
import re as _re

class GraphView:
    """read access to a ModuleGraph value of the interpreter by field name"""
    def __init__(self, mir, graph_val, N):
        self.mir, self.g, self.N = mir, graph_val, N
    def fld(self, agg, struct, name):
        idx = self.mir.structs[struct].index(name)
        return agg.f[idx] if idx < len(agg.f) else None
    @property
    def kind(self): return self.fld(self.g, 'ModuleGraph', 'graph_kind').tag
    @property
    def slots(self): return self.fld(self.g, 'ModuleGraph', 'module_slots')
    @property
    def redirects(self): return self.fld(self.g, 'ModuleGraph', 'redirects')
    @property
    def imports(self): return self.fld(self.g, 'ModuleGraph', 'imports')
    @property
    def roots(self): return self.fld(self.g, 'ModuleGraph', 'roots')
    @property
    def has_node(self): return self.fld(self.g, 'ModuleGraph', 'has_node_specifier')
    def slot_present(self, i): return self.slots.present[i]
    def slot(self, i): return self.slots.vals[i]
    def slot_kind(self, i): return self.slot(i).tag if self.slot(i) is not None else BV(0, 8)
    def module(self, i):
        s = self.slot(i)
        return s.vars[0].f[0] if s is not None and 0 in s.vars and s.vars[0].f else None
    def mod_kind(self, i):
        m = self.module(i); return m.tag if m is not None else BV(0, 8)
    def js(self, i):
        m = self.module(i); return m.vars[0].f[0] if m is not None and 0 in m.vars and m.vars[0].f else None
    def wasm(self, i):
        m = self.module(i); return m.vars[2].f[0] if m is not None and 2 in m.vars and m.vars[2].f else None
    def deps_of(self, i):
        """[(selector, SlotMap)] dependency maps of module i by module kind"""
        out = []
        j, w = self.js(i), self.wasm(i)
        if j is not None: out.append((EQ(self.mod_kind(i), BV(0, 8)), self.fld(j, 'JsModule', 'dependencies')))
        if w is not None: out.append((EQ(self.mod_kind(i), BV(2, 8)), self.fld(w, 'WasmModule', 'dependencies')))
        return out
    def dep_fields(self, dep):
        f = lambda n: self.fld(dep, 'Dependency', n)
        return {'code': f('maybe_code'), 'type': f('maybe_type'), 'dyn': f('is_dynamic'), 'dts': f('maybe_deno_types_specifier')}
    def res_fields(self, res):
        """(kind tag, target id, range id) of a Resolution value"""
        t, rid = BV(0, 8), BV(0, 16)
        ok = res.vars.get(1)
        if ok and ok.f and ok.f[0] is not None:
            rr = ok.f[0].val if isinstance(ok.f[0], BoxV) else ok.f[0]
            sp = self.fld(rr, 'ResolutionResolved', 'specifier'); rg = self.fld(rr, 'ResolutionResolved', 'range')
            if isinstance(sp, UrlV): t = sp.id
            if isinstance(rg, Agg) and z3.is_expr(rg.f[1]): rid = rg.f[1]
        er = res.vars.get(2)
        if er and er.f and er.f[0] is not None:
            e = er.f[0].val if isinstance(er.f[0], BoxV) else er.f[0]
            for vi, payload in e.vars.items():
                for x in payload.f:
                    if isinstance(x, Agg) and len(x.f) == 3 and z3.is_expr(x.f[1]): rid = IF(EQ(res.tag, BV(2, 8)), x.f[1], rid)
        return res.tag, t, rid

    def decode(self, model):
        MT = self.mir.enums['MediaType']
        def res(r):
            if r is None: return None
            k, t, rid = self.res_fields(r)
            k = ev(model, k)
            return None if k == 0 else ({'ok': ev(model, t), 'rid': ev(model, rid)} if k == 1 else {'err': True, 'rid': ev(model, rid)})
        def deps(sm):
            out = []
            for p, key, val in zip(sm.present, sm.keys, sm.vals):
                if not ev(model, p): continue
                d = self.dep_fields(val)
                out.append({'text': ev(model, key.id), 'code': res(d['code']), 'type': res(d['type']), 'dynamic': ev(model, d['dyn']),
                            'deno_types': ev(model, d['dts'].tag) == 1 if isinstance(d['dts'], EnumV) else False})
            return out
        g = {'graph_kind': KINDS[ev(model, self.kind)], 'slots': {}, 'redirects': {}, 'has_node_specifier': ev(model, self.has_node)}
        r = self.roots
        g['roots'] = [ev(model, r.items[k]) for k in range(ev(model, r.len))]
        g['imports'] = sum(1 for p in self.imports.present if ev(model, p))
        for i in range(self.N):
            if ev(model, self.redirects.present[i]): g['redirects'][str(i)] = ev(model, self.redirects.vals[i].id)
            if not ev(model, self.slot_present(i)): continue
            sk = ev(model, self.slot_kind(i))
            if sk == 2: g['slots'][str(i)] = {'kind': 'pending'}
            elif sk == 1: g['slots'][str(i)] = {'kind': 'err'}
            else:
                mk = ev(model, self.mod_kind(i))
                kind = ['js', 'json', 'wasm', 'npm', 'node', 'external'][mk]
                e = {'kind': kind}
                if kind == 'js':
                    j = self.js(i)
                    e['deps'] = deps(self.fld(j, 'JsModule', 'dependencies'))
                    e['media_type'] = MT[ev(model, self.fld(j, 'JsModule', 'media_type').tag)]
                    td = self.fld(j, 'JsModule', 'maybe_types_dependency')
                    e['types_dep'] = None
                    if ev(model, td.tag) == 1:
                        tdv = td.vars[1].f[0]
                        e['types_dep'] = {'text': ev(model, self.fld(tdv, 'TypesDependency', 'specifier').id), 'res': res(self.fld(tdv, 'TypesDependency', 'dependency'))}
                    if 'fast_check' in self.mir.structs['JsModule']:
                        fc = self.fld(j, 'JsModule', 'fast_check')
                        e['fast_check'] = None
                        if fc is not None and isinstance(fc, EnumV) and ev(model, fc.tag) == 1:
                            slot = fc.vars[1].f[0]
                            if ev(model, slot.tag) == 1: e['fast_check'] = {'error': True}
                            else:
                                fm = slot.vars[0].f[0]; fm = fm.val if isinstance(fm, BoxV) else fm
                                e['fast_check'] = {'deps': deps(self.fld(fm, 'FastCheckTypeModule', 'dependencies'))}
                if kind == 'wasm': e['deps'] = deps(self.fld(self.wasm(i), 'WasmModule', 'dependencies'))
                g['slots'][str(i)] = e
        return g

def normalize_graph_dump(d):
    """bring the replay binary's graph dump into the shape of GraphView.decode"""
    def text(t):
        m = _re.search(r't(\d+)$', t) if isinstance(t, str) else None
        return int(m.group(1)) if m else t
    def deps(ds): return [{'text': text(x['text']), 'code': x['code'], 'type': x['type'], 'dynamic': x['dynamic'], 'deno_types': x['deno_types']} for x in ds]
    g = {'graph_kind': d['graph_kind'], 'slots': {}, 'redirects': d['redirects'], 'has_node_specifier': d['has_node_specifier'], 'roots': d['roots'], 'imports': d['imports']}
    for k, s in d['slots'].items():
        kind = s.get('kind')
        if kind in ('pending', 'err'): g['slots'][k] = {'kind': kind}
        else:
            e = {'kind': kind}
            if kind == 'js':
                e['deps'] = deps(s['deps']); e['media_type'] = s['media_type']
                td = s.get('types_dep')
                e['types_dep'] = {'text': text(td['text']), 'res': td['res']} if td else None
                if 'fast_check' in s:
                    fc = s['fast_check']
                    e['fast_check'] = None if fc is None else ({'error': True} if 'error' in fc else {'deps': deps(fc['deps'])})
            if kind == 'wasm': e['deps'] = deps(s['deps'])
            g['slots'][k] = e
    return g

class PruneTypes:
    """ModuleGraph::prune_types(&mut self) on a copy of the world; exposes the post-state"""
    def __init__(self, eng, world):
        self.world = world
        self.root = Root(world.root.val, 'pruned-graph')
        eng.call(eng.mir.find('ModuleGraph', 'prune_types'), [Ptr([(TRUE, (self.root, ()))])], TRUE)
        self.post = GraphView(eng.mir, self.root.val, world.N)
        self.ptr = Ptr([(TRUE, (self.root, ()))])
        self.then = []
    def decode(self, model): return {'graph': self.post.decode(model), 'then': [normalize_then(t.op_json(model), t.decode(model), self.post.mir) for t in self.then]}
    def op_json(self, model): return {'op': 'prune_types', 'then': [t.op_json(model) for t in self.then]}

def normalize_then(oj, d, mir):
    from .harness import normalize_decoded
    return normalize_decoded(oj, d, mir)

class Segment:
    """ModuleGraph::segment(&self, roots: &[Url]) with an arbitrary subset as roots (passed in id order)"""
    def __init__(self, eng, world, sel):
        self.world, self.sel = world, sel
        slice_ = SeqV([(sel[i], UrlV(BV(i, 8))) for i in range(world.N)])
        val = eng.call(eng.mir.find('ModuleGraph', 'segment'), [world.ptr, ref_to(slice_, 'segment-roots')], TRUE)
        self.root = Root(val, 'segment-graph'); self.ptr = Ptr([(TRUE, (self.root, ()))])
        self.post = GraphView(eng.mir, val, world.N)
        self.then = []
    def decode(self, model): return {'graph': self.post.decode(model), 'then': [normalize_then(t.op_json(model), t.decode(model), self.post.mir) for t in self.then]}
    def op_json(self, model): return {'op': 'segment', 'roots': [i for i in range(self.world.N) if ev(model, self.sel[i])], 'then': [t.op_json(model) for t in self.then]}

class Errors:
    """walk(..).errors() drained: `steps` calls of ModuleGraphErrorIterator::next"""
    def __init__(self, eng, world, opts, rootsel, steps, graph_ptr=None):
        mir = eng.mir
        self.world, self.opts, self.rootsel = world, opts, rootsel
        it = eng.call(mir.find('ModuleGraph', 'walk'), [graph_ptr or world.ptr, roots_iter(world, rootsel), opts.value()], TRUE)
        eit = eng.call(mir.find('ModuleEntryIterator', 'errors'), [it], TRUE)
        self.root = Root(eit, 'error-iter'); ptr = Ptr([(TRUE, (self.root, ()))])
        NEXT = mir.find('ModuleGraphErrorIterator', 'next', 'Iterator')
        self.es = []
        for k in range(steps):
            r = eng.call(NEXT, [ptr], TRUE)
            some = opt_is_some(r); p = opt_payload(r)
            if p is None or z3.is_false(some):
                self.es.append({'some': FALSE, 'cat': BV(0, 8), 'kind': BV(0, 8), 'spec': BV(255, 8), 'rid': BV(0, 16)}); continue
            f = graph_error_fields(eng, p); f['some'] = some
            self.es.append(f)
    def decode(self, model):
        out = []
        for e in self.es:
            if not ev(model, e['some']): break
            cat = ['module', 'resolution', 'types_resolution'][ev(model, e['cat'])]
            out.append({'cat': cat, 'kind': ev(model, e['kind']), 'specifier': ev(model, e['spec']), 'rid': ev(model, e['rid'])})
        return {'errors': out}
    def op_json(self, model):
        d = {'op': 'errors', 'roots': [i for i in range(self.world.N) if ev(model, self.rootsel[i])]}
        d.update(self.opts.to_json(model)); return d
