"""mirsym: bounded symbolic execution of rustc MIR (text form) with z3.

Guarded single store, layered loop unrolling with unwinding assertions, guarded pointer sets,
container/iterator models for out-of-crate callees, in-crate callees executed from their MIR.
See DESIGN.md section 2.
"""
import re, z3
from .mirparse import Fn, split_functions

TRUE, FALSE = z3.BoolVal(True), z3.BoolVal(False)

def AND(*xs):
    ys = []
    for x in xs:
        if z3.is_false(x): return FALSE
        if not z3.is_true(x): ys.append(x)
    return z3.And(ys) if len(ys) > 1 else (ys[0] if ys else TRUE)
def OR(*xs):
    ys = []
    for x in xs:
        if z3.is_true(x): return TRUE
        if not z3.is_false(x): ys.append(x)
    return z3.Or(ys) if len(ys) > 1 else (ys[0] if ys else FALSE)
def NOT(x):
    if z3.is_true(x): return FALSE
    if z3.is_false(x): return TRUE
    if z3.is_not(x): return x.arg(0)
    return z3.Not(x)
def IF(g, a, b):
    if z3.is_true(g): return a
    if z3.is_false(g): return b
    if a.eq(b): return a
    if z3.is_bool(a):
        if z3.is_true(a) and z3.is_false(b): return g
        if z3.is_false(a) and z3.is_true(b): return NOT(g)
        if z3.is_false(b): return AND(g, a)
        if z3.is_true(a): return OR(g, b)
    return z3.If(g, a, b)
def BV(v, w): return z3.BitVecVal(v, w)
def isconst(x): return z3.is_bv_value(x) or z3.is_true(x) or z3.is_false(x)
def EQ(a, b):
    if isinstance(a, bool): a = z3.BoolVal(a)
    if isinstance(b, bool): b = z3.BoolVal(b)
    if z3.is_bv(a) and z3.is_bv(b) and a.size() != b.size():
        w = max(a.size(), b.size())
        a, b = fit(a, w), fit(b, w)
    if a.eq(b): return TRUE
    if z3.is_bv_value(a) and z3.is_bv_value(b): return z3.BoolVal(a.as_long() == b.as_long())
    if z3.is_bool(a) and isconst(a) and isconst(b): return z3.BoolVal(z3.is_true(a) == z3.is_true(b))
    # ite over constants compared with a constant: push the comparison into the branches (keeps tag tests foldable)
    for x, y in ((a, b), (b, a)):
        if z3.is_bv_value(y) and z3.is_app_of(x, z3.Z3_OP_ITE) and z3.is_bv_value(x.arg(1)) and z3.is_bv_value(x.arg(2)):
            return IF(x.arg(0), z3.BoolVal(x.arg(1).as_long() == y.as_long()), z3.BoolVal(x.arg(2).as_long() == y.as_long()))
    if z3.is_bool(a):
        if z3.is_true(b): return a
        if z3.is_false(b): return NOT(a)
        if z3.is_true(a): return b
        if z3.is_false(a): return NOT(b)
    return a == b
def _allconst(*xs): return all(z3.is_bv_value(x) or z3.is_true(x) or z3.is_false(x) for x in xs)
def ADD(a, b):
    if isinstance(b, int): b = BV(b, a.size())
    if z3.is_bv_value(a) and z3.is_bv_value(b): return BV((a.as_long() + b.as_long()) % (1 << a.size()), a.size())
    if z3.is_bv_value(b) and b.as_long() == 0: return a
    if z3.is_bv_value(a) and a.as_long() == 0: return b
    return a + b
def SUB(a, b):
    if isinstance(b, int): b = BV(b, a.size())
    if z3.is_bv_value(a) and z3.is_bv_value(b): return BV((a.as_long() - b.as_long()) % (1 << a.size()), a.size())
    if z3.is_bv_value(b) and b.as_long() == 0: return a
    return a - b
def ULT(a, b):
    if z3.is_bv_value(a) and z3.is_bv_value(b): return z3.BoolVal(a.as_long() < b.as_long())
    if z3.is_bv_value(b) and b.as_long() == 0: return FALSE
    return z3.ULT(a, b)
def ULE(a, b):
    if z3.is_bv_value(a) and z3.is_bv_value(b): return z3.BoolVal(a.as_long() <= b.as_long())
    if z3.is_bv_value(a) and a.as_long() == 0: return TRUE
    return z3.ULE(a, b)
def fit(x, w, signed=False):
    if x.size() == w: return x
    if x.size() > w: return z3.Extract(w - 1, 0, x) if not z3.is_bv_value(x) else BV(x.as_long() % (1 << w), w)
    if z3.is_bv_value(x):
        v = x.as_signed_long() if signed else x.as_long()
        return BV(v % (1 << w), w)
    return z3.SignExt(w - x.size(), x) if signed else z3.ZeroExt(w - x.size(), x)

class Unsupported(Exception): pass

EXTERNAL_CONSTS = {}     # constants of dependencies that the code under test uses (filled below)

_NORM = re.compile(r'\b[a-z_][a-z0-9_]*::(?=[A-Za-z_{]|<impl (?:str|bool|char|u8|usize|\\?\[))')
def coro_key(ty):
    """coroutine type name with module paths and lifetimes dropped (the two MIR dumps and call sites qualify differently)"""
    return re.sub(r"<('\w+(, )?)+>", '', re.sub(r'\b[a-z_][a-z_0-9]*::', '', ty)).replace(' ', '')

def norm_path(c):
    """drop module-path segments (`std::option::Option` -> `Option`): the two MIR dumps qualify paths differently"""
    prev = None
    while prev != c: prev, c = c, _NORM.sub('', c)
    return c

# ------------------------------------------------------------------ values
class Agg:
    __slots__ = ('f',)
    def __init__(self, f): self.f = list(f)
    def __repr__(self): return f'Agg{self.f}'
class EnumV:
    __slots__ = ('tag', 'vars')
    def __init__(self, tag, vars=None):
        self.tag = BV(tag, 8) if isinstance(tag, int) else tag
        self.vars = vars if vars is not None else {}
    def __repr__(self): return f'Enum({self.tag},{self.vars})'
    def is_variant(self, i): return EQ(self.tag, BV(i, self.tag.size()))
class CoroV(EnumV):
    """coroutine (async fn body) state: discriminant + the locals saved per suspension variant (the EnumV part) + captured up-vars (fields)"""
    def __init__(self, tag, vars, up): EnumV.__init__(self, tag, vars); self.up = list(up)
    def field(self, i): return self.up[i] if i < len(self.up) else None      # trailing captures the MIR printer elided stay uninitialised (any use is refused)
    def with_field(self, i, v):
        up = list(self.up)
        while len(up) <= i: up.append(None)
        up[i] = v; return CoroV(self.tag, self.vars, up)
    def rebuild(self, tag, vars): return CoroV(tag, vars, self.up)
class BoxV:
    """Box<T> with inline content"""
    __slots__ = ('val',)
    def __init__(self, val): self.val = val
    def __repr__(self): return f'Box({self.val})'
class Ptr:
    __slots__ = ('targets',)
    def __init__(self, targets): self.targets = targets
    def __repr__(self): return f'Ptr({len(self.targets)})'
class UrlV:
    """Url as an atom of the finite specifier universe"""
    __slots__ = ('id',)
    def __init__(self, id): self.id = id
    def __repr__(self): return f'Url({self.id})'
class TextV:
    """String/&str as an atom of the finite text universe (dependency specifier texts)"""
    __slots__ = ('id', 'lower')
    def __init__(self, id, lower=False): self.id, self.lower = id, lower
    def __repr__(self): return f'Text({self.id})'
class StrV:
    __slots__ = ('s',)
    def __init__(self, s): self.s = s
    def __repr__(self): return f'Str({self.s!r})'
class ClosureV:
    __slots__ = ('span', 'env')
    def __init__(self, span, env): self.span, self.env = span, env
class FnItem:
    __slots__ = ('name',)
    def __init__(self, name): self.name = name
class Opaque:
    __slots__ = ('what',)
    def __init__(self, what='?'): self.what = what
    def __repr__(self): return f'Opaque({self.what})'
UNIT = Agg([])
O = Opaque('unmodelled field')

class Root:
    n = 0
    __slots__ = ('val', 'id', 'name')
    def __init__(self, val=None, name=''):
        self.val = val; Root.n += 1; self.id = Root.n; self.name = name
URLTAB = Root(name='urltab')
def url_ref(idterm): return Ptr([(TRUE, (URLTAB, (('u', idterm),)))])
def ref_to(val, name='tmp'): return Ptr([(TRUE, (Root(val, name), ()))])

def place_key(pl):
    root, path = pl
    return (root.id,) + tuple((s[0], (s[1] if not z3.is_expr(s[1]) else ('z', s[1].get_id())) if len(s) > 1 else None) for s in path)

def ite(g, a, b):
    """value-level merge: g ? a : b"""
    if b is None: return a
    if a is None: return b
    if a is b: return a
    if z3.is_true(g): return a
    if z3.is_false(g): return b
    if isinstance(a, bool): a = z3.BoolVal(a)
    if isinstance(b, bool): b = z3.BoolVal(b)
    if z3.is_expr(a) and z3.is_expr(b):
        if z3.is_bv(a) and z3.is_bv(b) and a.size() != b.size():
            w = max(a.size(), b.size()); a, b = fit(a, w), fit(b, w)
        return IF(g, a, b)
    if isinstance(a, Opaque): return b if not isinstance(b, Opaque) else a
    if isinstance(b, Opaque): return a
    if isinstance(a, Agg) and isinstance(b, Agg):
        n = max(len(a.f), len(b.f))
        return Agg([ite(g, a.f[i] if i < len(a.f) else None, b.f[i] if i < len(b.f) else None) for i in range(n)])
    if isinstance(a, EnumV) and isinstance(b, EnumV):
        vs = {}
        for k in set(a.vars) | set(b.vars): vs[k] = ite(g, a.vars.get(k), b.vars.get(k))
        return EnumV(ite(g, a.tag, b.tag), vs)
    if isinstance(a, BoxV) and isinstance(b, BoxV): return BoxV(ite(g, a.val, b.val))
    if isinstance(a, Ptr) and isinstance(b, Ptr):
        acc = {}
        for c, p in [(AND(g, c), p) for c, p in a.targets] + [(AND(NOT(g), c), p) for c, p in b.targets]:
            if z3.is_false(c): continue
            k = place_key(p)
            acc[k] = (OR(acc[k][0], c), p) if k in acc else (c, p)
        return Ptr(list(acc.values()))
    if isinstance(a, UrlV) and isinstance(b, UrlV): return UrlV(ite(g, a.id, b.id))
    if isinstance(a, TextV) and isinstance(b, TextV) and a.lower == b.lower: return TextV(ite(g, a.id, b.id), a.lower)
    if hasattr(a, 'merge') and type(a) is type(b): return a.merge(g, b)
    if isinstance(a, StrV) and isinstance(b, StrV):
        if a.s != b.s: raise Unsupported(f'merge of two different string constants {a.s!r} / {b.s!r}')
        return a
    if isinstance(a, (ClosureV, FnItem)) and type(a) is type(b): return a
    raise Unsupported(f'ite of {type(a).__name__} / {type(b).__name__}')

def val_eq(a, b):
    """structural equality of two model values as a z3 Bool (None/Opaque compare equal)"""
    if a is None or b is None or isinstance(a, Opaque) or isinstance(b, Opaque): return TRUE
    if isinstance(a, bool): a = z3.BoolVal(a)
    if isinstance(b, bool): b = z3.BoolVal(b)
    if z3.is_expr(a) and z3.is_expr(b): return EQ(a, b)
    if isinstance(a, Agg) and isinstance(b, Agg):
        return AND(*[val_eq(x, y) for x, y in zip(a.f, b.f)])
    if isinstance(a, EnumV) and isinstance(b, EnumV):
        cs = [EQ(a.tag, b.tag)]
        for k in set(a.vars) & set(b.vars):
            cs.append(OR(NOT(a.is_variant(k)), val_eq(a.vars[k], b.vars[k])))
        return AND(*cs)
    if isinstance(a, BoxV) and isinstance(b, BoxV): return val_eq(a.val, b.val)
    if isinstance(a, UrlV) and isinstance(b, UrlV): return EQ(a.id, b.id)
    if isinstance(a, TextV) and isinstance(b, TextV): return EQ(a.id, b.id)
    if hasattr(a, 'equals') and type(a) is type(b): return a.equals(b)
    if isinstance(a, (StrV,)) and isinstance(b, StrV): return z3.BoolVal(a.s == b.s)
    raise Unsupported(f'val_eq of {type(a).__name__} / {type(b).__name__}')

def strip_generics(path):
    out, depth, i = '', 0, 0
    while i < len(path):
        c = path[i]
        if c == '<': depth += 1
        elif c == '>' and not (i > 0 and path[i - 1] in '-='): depth -= 1
        elif depth == 0: out += c
        i += 1
    while '::::' in out: out = out.replace('::::', '::')
    return out.strip(':')

def type_head(ty):
    ty = ty.strip()
    while True:
        m = re.match(r"(&('\w+ )?\s*(mut )?|\*const |\*mut |mut )", ty)
        if m and m.group(0): ty = ty[len(m.group(0)):]
        else: break
    head = re.split(r'<', ty, 1)[0]
    return head.split('::')[-1].strip()

INT_TYPES = {'u8': (8, False), 'i8': (8, True), 'u16': (16, False), 'i16': (16, True), 'u32': (32, False), 'i32': (32, True),
             'u64': (64, False), 'i64': (64, True), 'u128': (128, False), 'i128': (128, True), 'char': (32, False)}

EXTERNAL_CONSTS['BOM_CHAR'] = z3.BitVecVal(0xFEFF, 32)    # deno_media_type::encoding::BOM_CHAR

# ------------------------------------------------------------------ MIR dump wrapper
class Mir:
    def __init__(self, text, src_dir, enums, structs):
        self.fn_text, self.consts = split_functions(text)
        self.src_dir, self.enums, self.structs = src_dir, enums, structs
        self.fns, self._src = {}, {}
        self.derived = set()
        self.index = self._build_index()
        self.closures = {}
        for name, t in self.fn_text.items():
            if '{closure#' in name:
                m = re.search(r'\{closure@([^}]*)\}', t.split('\n', 1)[0])
                if m: self.closures.setdefault(m.group(1), name)

    def src_line(self, f, line):
        if f not in self._src: self._src[f] = open(f'{self.src_dir}/{f}').read().split('\n')
        return self._src[f][line - 1]

    def _build_index(self):
        idx = {}
        for name in self.fn_text:
            m = re.match(r'(?:[\w]+::)*<impl at (src/[\w/]+\.rs):(\d+):(\d+): \d+:\d+>::(\w+)$', name)
            if m:
                f, line, col, meth = m.group(1), int(m.group(2)), int(m.group(3)), m.group(4)
                hdr = self.src_line(f, line)[col - 1:]
                k = line
                while '{' not in hdr and 'for' not in hdr.split() and k < line + 6:
                    hdr += ' ' + self.src_line(f, k + 1).strip(); k += 1
                mm = re.match(r'\s*impl(?:<[^>]*(?:<[^>]*>[^>]*)*>)?\s+(?:(.+?)\s+for\s+)?([\w:]+)', hdr)
                if mm:
                    trait = mm.group(1)
                    trait = re.split(r'<', trait)[0].split('::')[-1] if trait else None
                    selfty = mm.group(2).split('::')[-1]
                    idx[(selfty, trait, meth)] = name
                    idx.setdefault((selfty, '*', meth), name)
                else:
                    # derive-generated impl: span points into the derive list, self type is the next item
                    tr = re.match(r'(\w+)', hdr)
                    trait = tr.group(1) if tr else None
                    for k in range(line, line + 12):
                        mm = re.match(r'\s*(?:pub(?:\([^)]*\))?\s+)?(?:struct|enum)\s+(\w+)', self.src_line(f, k))
                        if mm:
                            idx[(mm.group(1), trait, meth)] = name; self.derived.add(name); break
            elif re.fullmatch(r'[\w:]+', name):
                idx[(None, None, name.split('::')[-1])] = name
        return idx

    def get_fn(self, name):
        if name not in self.fns: self.fns[name] = Fn(name, self.fn_text[name])
        return self.fns[name]

    def find(self, selfty, meth, trait='*'):
        k = (selfty, trait, meth)
        if k in self.index: return self.index[k]
        raise KeyError(f'no MIR definition for {selfty}::{meth}')

# ------------------------------------------------------------------ engine
class Frame:
    __slots__ = ('fn', 'roots')
    def __init__(self, fn): self.fn = fn; self.roots = {}
    def root(self, n):
        r = self.roots.get(n)
        if r is None: r = self.roots[n] = Root(name=f'{self.fn.name[-24:]}:_{n}')
        return r

class Engine:
    def __init__(self, mir, usize_bits=8, unroll=16, unroll_by_fn=None):
        self.mir = mir
        self.W = usize_bits
        self.unroll = unroll
        self.unroll_by_fn = unroll_by_fn or {}
        self.exceeded = []        # (fn, guard): unwinding assertions
        self.obligations = []     # (label, guard-of-failure): asserts, capacities, narrowed-width overflow
        self.panics = []          # (label, guard): explicit panics / unwrap failures reached
        self.stats = {'blocks': 0, 'calls': 0}
        self.fn_used = set()      # MIR functions executed (for evidence)
        self.models_used = set()  # environment models invoked (for evidence)
        self.depth = 0
        from . import models
        self.models = models.MODELS_NORM
        self.cfg = {}             # sizes for container models etc.

    # ---- types
    def int_info(self, ty):
        ty = ty.strip()
        if ty in ('usize',): return (self.W, False)
        if ty in ('isize',): return (self.W, True)
        return INT_TYPES.get(ty)

    # ---- memory
    def step_into(self, v, step, prefix):
        k = step[0]
        if v is None or isinstance(v, Opaque): return None
        if k == 'f':
            if isinstance(v, BoxV): return Ptr([(TRUE, (prefix[0], prefix[1] + (('b',),)))])
            if isinstance(v, Ptr): return v            # Unique/NonNull wrappers around a box pointer
            if isinstance(v, Agg): return v.f[step[1]] if step[1] < len(v.f) else None
            if hasattr(v, 'field'): return v.field(step[1])
            raise Unsupported(f'field {step[1]} of {v!r}')
        if k == 'v': return v.vars.get(step[1]) if isinstance(v, EnumV) else None
        if k == 'k': return v.slot(step[1])
        if k == 'b':
            if isinstance(v, BoxV): return v.val
            raise Unsupported(f'box content of {v!r}')
        raise Unsupported(f'step {step}')

    def read(self, pl):
        root, path = pl
        if root is URLTAB:
            v = UrlV(path[0][1]); path = path[1:]; done = 1
            if path: raise Unsupported('projection into a Url')
            return v
        v = root.val
        for i, s in enumerate(path):
            v = self.step_into(v, s, (root, path[:i]))
        return v

    def upd(self, v, path, val, g):
        if not path: return ite(g, val, v)
        s, rest = path[0], path[1:]
        if s[0] == 'f':
            if isinstance(v, (Ptr, BoxV)): raise Unsupported('write through box wrapper field')
            if v is not None and not isinstance(v, (Agg, Opaque)) and hasattr(v, 'with_field'):
                return v.with_field(s[1], self.upd(v.field(s[1]), rest, val, g))
            f = list(v.f) if isinstance(v, Agg) else []
            while len(f) <= s[1]: f.append(None)
            f[s[1]] = self.upd(f[s[1]], rest, val, g); return Agg(f)
        if s[0] == 'v':
            vs = dict(v.vars) if isinstance(v, EnumV) else {}
            vs[s[1]] = self.upd(vs.get(s[1]), rest, val, g)
            if isinstance(v, CoroV): return v.rebuild(v.tag, vs)
            return EnumV(v.tag if isinstance(v, EnumV) else BV(0, 8), vs)
        if s[0] == 'k': return v.with_slot(s[1], self.upd(v.slot(s[1]), rest, val, g))
        if s[0] == 'b': return BoxV(self.upd(v.val if isinstance(v, BoxV) else None, rest, val, g))
        raise Unsupported(f'upd step {s}')

    def write(self, pl, val, g):
        root, path = pl
        if root is URLTAB: raise Unsupported('write to url table')
        root.val = self.upd(root.val, path, val, g)

    def load(self, ptr):
        if not isinstance(ptr, Ptr): raise Unsupported(f'load through non-pointer {ptr!r}')
        v = None
        for c, pl in ptr.targets:
            x = self.read(pl)
            v = x if v is None else ite(c, x, v)
        return v

    def store(self, ptr, val, g):
        for c, pl in ptr.targets: self.write(pl, val, AND(g, c))

    # ---- places
    def type_of(self, pe, fr):
        k = pe[0]
        if k == 'local': return fr.fn.types.get(pe[1], '')
        if k == 'field': return pe[3]
        if k == 'downcast': return self.type_of(pe[1], fr)
        if k == 'deref':
            t = self.type_of(pe[1], fr).strip()
            t = re.sub(r"^&('\w+ )?(mut )?", '', t)
            t = re.sub(r'^\*(const|mut) ', '', t)
            m = re.match(r'(?:std::boxed::)?Box<(.*)>$', t)
            return m.group(1) if m else t
        return ''

    def variant_index(self, ty, name):
        if name.startswith('variant#'): return int(name[8:])      # coroutine suspension states
        head = type_head(ty)
        vs = self.mir.enums.get(head)
        if vs is None: raise Unsupported(f'downcast on unknown/ambiguous enum {head!r} ({ty!r})')
        if name not in vs: raise Unsupported(f'variant {name} not in enum {head}')
        return self.discr(head, name)

    def discr(self, enum, name):
        from .rsdefs import EXPLICIT_DISCRIMINANTS
        if enum in EXPLICIT_DISCRIMINANTS: return EXPLICIT_DISCRIMINANTS[enum][name]
        return self.mir.enums[enum].index(name)

    def resolve(self, pe, fr):
        k = pe[0]
        if k == 'local': return [(TRUE, (fr.root(pe[1]), ()))]
        if k == 'field': return [(c, (r, p + (('f', pe[2]),))) for c, (r, p) in self.resolve(pe[1], fr)]
        if k == 'downcast':
            idx = self.variant_index(self.type_of(pe[1], fr), pe[2])
            return [(c, (r, p + (('v', idx),))) for c, (r, p) in self.resolve(pe[1], fr)]
        if k == 'deref':
            out = []
            for c, pl in self.resolve(pe[1], fr):
                v = self.read(pl)
                if isinstance(v, BoxV): out.append((c, (pl[0], pl[1] + (('b',),)))); continue
                if not isinstance(v, Ptr): raise Unsupported(f'deref of non-pointer {v!r} at {pe}')
                for c2, pl2 in v.targets: out.append((AND(c, c2), pl2))
            return out
        if k == 'index':
            base = self.resolve(pe[1], fr)
            m = re.fullmatch(r'_(\d+)', pe[2])
            if not m: raise Unsupported(f'index expr {pe[2]}')
            iv = self.read_place(('local', int(m.group(1))), fr)
            out = []
            for c, (r, p) in base:
                cont = self.read((r, p))
                n = cont.index_len()
                for i in range(n):
                    ci = AND(c, EQ(iv, BV(i, iv.size())))
                    if not z3.is_false(ci): out.append((ci, (r, p + (('k', i),))))
            return out
        raise Unsupported(f'place {pe}')

    def read_place(self, pe, fr):
        v = None
        for c, pl in self.resolve(pe, fr):
            x = self.read(pl)
            v = x if v is None else ite(c, x, v)
        return v

    def write_place(self, pe, val, g, fr):
        for c, pl in self.resolve(pe, fr): self.write(pl, val, AND(g, c))

    # ---- operands / rvalues
    def const(self, c, fr, ty=''):
        if c in ('true', 'false'): return z3.BoolVal(c == 'true')
        m = re.fullmatch(r'(-?\d+)_(usize|isize|u8|u16|u32|u64|u128|i8|i16|i32|i64|i128)', c)
        if m:
            w, _ = self.int_info(m.group(2))
            return BV(int(m.group(1)) % (1 << w), w)
        if c == '()': return UNIT
        m = re.match(r'ZeroSized: \{closure@(.*)\}$', c)
        if m: return ClosureV(m.group(1), Agg([]))
        if c.startswith('"'): return StrV(c[1:-1])
        if c.startswith('fnitem '): return FnItem(c[7:])
        m = re.match(r"'(.)'$", c)
        if m: return BV(ord(m.group(1)), 32)
        if 'promoted[' in c:
            segs = c.split('::')
            for cut in range(len(segs)):      # the use site may qualify the path with leading module names
                key = '::'.join(segs[cut:])
                if key in self.mir.fn_text: return self.call(key, [], TRUE)
            cands = [n for n in self.mir.fn_text if n.endswith('::' + '::'.join(segs[-2:]))]
            if len(cands) == 1: return self.call(cands[0], [], TRUE)
            # method of a generic impl: the use site spells `Type::<..>::method::{closure#k}::promoted[i]`, the definition `<impl at ..>::method::..`
            gi = max([i for i, sg in enumerate(segs) if '<' in sg], default=-1)
            if 0 <= gi < len(segs) - 2:
                cands = [n for n in self.mir.fn_text if n.endswith('>::' + '::'.join(segs[gi + 1:]))]
                if len(cands) == 1: return self.call(cands[0], [], TRUE)
            raise Unsupported('promoted ' + c)
        last = c.split('::')[-1]
        if last in EXTERNAL_CONSTS: return EXTERNAL_CONSTS[last]
        m = re.match(r"'\\u\{([0-9a-fA-F]+)\}'$", c)
        if m: return BV(int(m.group(1), 16), 32)
        for k in (c, last):
            if k in self.mir.consts: return self.const(self.mir.consts[k][1], fr)
        cands = [k for k in self.mir.consts if k.endswith('::' + last)]
        if len(cands) == 1: return self.const(self.mir.consts[cands[0]][1], fr)
        if re.match(r'ZeroSized: ', c): return FnItem(c[len('ZeroSized: '):])
        return Opaque('const ' + c)

    def operand(self, op, fr):
        if op[0] in ('copy', 'move'): return self.read_place(op[1], fr)
        return self.const(op[1], fr)

    def operand_type(self, op, fr):
        if op[0] in ('copy', 'move'): return self.type_of(op[1], fr)
        m = re.search(r'_(usize|isize|u8|u16|u32|u64|u128|i8|i16|i32|i64|i128)$', op[1])
        return m.group(1) if m else ''

    def binop(self, op, a, b, signed, g, where):
        if isinstance(a, bool): a = z3.BoolVal(a)
        if isinstance(b, bool): b = z3.BoolVal(b)
        if isinstance(a, UrlV) and isinstance(b, UrlV): a, b = a.id, b.id
        if not (z3.is_expr(a) and z3.is_expr(b)): raise Unsupported(f'binop {op} on {a!r}, {b!r}')
        if z3.is_bv(a) and z3.is_bv(b) and a.size() != b.size():
            w = max(a.size(), b.size()); a, b = fit(a, w, signed), fit(b, w, signed)
        if op == 'Eq': return EQ(a, b)
        if op == 'Ne': return NOT(EQ(a, b))
        if op in ('Ge', 'Gt', 'Le', 'Lt'):
            if z3.is_bv_value(a) and z3.is_bv_value(b):
                x, y = (a.as_signed_long(), b.as_signed_long()) if signed else (a.as_long(), b.as_long())
                return z3.BoolVal({'Ge': x >= y, 'Gt': x > y, 'Le': x <= y, 'Lt': x < y}[op])
            if signed: return {'Ge': a >= b, 'Gt': a > b, 'Le': a <= b, 'Lt': a < b}[op]
            return {'Ge': z3.UGE, 'Gt': z3.UGT, 'Le': z3.ULE, 'Lt': z3.ULT}[op](a, b)
        if op in ('Add', 'AddUnchecked'):
            r = ADD(a, b)
            if not signed: self.obligations.append((f'narrowed-width add overflow @ {where}', AND(g, ULT(r, a))))
            return r
        if op in ('Sub', 'SubUnchecked'):
            if not signed: self.obligations.append((f'sub underflow @ {where}', AND(g, ULT(a, b))))
            return SUB(a, b)
        if op in ('Mul', 'MulUnchecked'):
            if z3.is_bv_value(a) and z3.is_bv_value(b): return BV((a.as_long() * b.as_long()) % (1 << a.size()), a.size())
            return a * b
        if op in ('Div', 'Rem') and z3.is_bv(a):
            self.panics.append((f'division by zero @ {where}', AND(g, EQ(b, BV(0, b.size())))))
            if signed: return (a / b) if op == 'Div' else z3.SRem(a, b)
            return z3.UDiv(a, b) if op == 'Div' else z3.URem(a, b)
        if op in ('Shl', 'ShlUnchecked'): return a << fit(b, a.size())
        if op in ('Shr', 'ShrUnchecked'): return (a >> fit(b, a.size())) if signed else z3.LShR(a, fit(b, a.size()))
        if op == 'BitOr': return OR(a, b) if z3.is_bool(a) else a | b
        if op == 'BitAnd': return AND(a, b) if z3.is_bool(a) else a & b
        if op == 'BitXor': return z3.Xor(a, b) if z3.is_bool(a) else a ^ b
        raise Unsupported('binop ' + op)

    def rvalue(self, rv, fr, g, dest_ty='', where=''):
        k = rv[0]
        if k == 'use': return self.operand(rv[1], fr)
        if k == 'ref': return Ptr([(c, pl) for c, pl in self.resolve(rv[2], fr)])
        if k == 'discr':
            v = self.read_place(rv[1], fr)
            if isinstance(v, EnumV): return v.tag
            if hasattr(v, 'discriminant'): return v.discriminant()
            raise Unsupported(f'discriminant of {v!r}')
        if k == 'binop':
            a, b = self.operand(rv[2], fr), self.operand(rv[3], fr)
            t = self.operand_type(rv[2], fr) or self.operand_type(rv[3], fr)
            info = self.int_info(t) if t else None
            signed = bool(info and info[1])
            if rv[1] in ('AddWithOverflow', 'SubWithOverflow'):
                if z3.is_bv(a) and z3.is_bv(b) and a.size() != b.size():
                    w = max(a.size(), b.size()); a, b = fit(a, w), fit(b, w)
                if rv[1] == 'AddWithOverflow':
                    r = a + b; ov = z3.ULT(r, a) if not signed else z3.Not(z3.BVAddNoOverflow(a, b, True))
                else:
                    r = a - b; ov = z3.ULT(a, b) if not signed else z3.Not(z3.BVSubNoUnderflow(a, b, True))
                return Agg([r, ov])
            if rv[1] == 'Cmp':
                lt = self.binop('Lt', a, b, signed, g, where); eq = self.binop('Eq', a, b, signed, g, where)
                return EnumV(IF(lt, BV(255, 8), IF(eq, BV(0, 8), BV(1, 8))), {})
            return self.binop(rv[1], a, b, signed, g, where)
        if k == 'unop':
            a = self.operand(rv[2], fr)
            if rv[1] == 'Not': return NOT(a) if z3.is_bool(a) else ~a
            if rv[1] == 'PtrMetadata':
                v = self.load(a) if isinstance(a, Ptr) else a
                if hasattr(v, 'length'): return v.length(self)
                raise Unsupported(f'PtrMetadata of {v!r}')
            raise Unsupported('unop ' + rv[1])
        if k == 'cast':
            v = self.operand(rv[1], fr)
            kind = rv[3]
            if kind.startswith(('Transmute', 'PtrToPtr', 'PointerCoercion')): return v
            if kind.startswith('IntToInt'):
                info = self.int_info(rv[2])
                if info is None: raise Unsupported('cast to ' + rv[2])
                sinfo = self.int_info(self.operand_type(rv[1], fr) or '')
                if isinstance(v, EnumV): v = v.tag
                if z3.is_bool(v): v = IF(v, BV(1, info[0]), BV(0, info[0]))
                return fit(v, info[0], bool(sinfo and sinfo[1]))
            raise Unsupported('cast ' + kind)
        if k == 'tuple': return Agg([self.operand(o, fr) for o in rv[1]])
        if k == 'array': return Agg([self.operand(o, fr) for o in rv[1]])
        if k in ('agg', 'aggn'):
            path = rv[1]
            if k == 'aggn':
                names = [n for n, _ in rv[2]]
                ops = [self.operand(o, fr) for _, o in rv[2]]
            else:
                names, ops = None, [self.operand(o, fr) for o in rv[2]]
            if path.startswith('{closure@'):
                span = path[len('{closure@'):-1]
                if names is not None: ops = ops + self.elided_captures(span, len(ops), fr, where)
                return ClosureV(span, Agg(ops))
            if path.startswith('{coroutine@'):      # creation of an async fn / async block state: initial variant, captured up-vars in declaration order
                v = CoroV(BV(0, 8), {}, ops); v.names = names; v.span = path; return v
            segs = [s for s in strip_generics(path).split('::') if s]
            enums = self.mir.enums
            if len(segs) >= 2 and enums.get(segs[-2]) and segs[-1] in enums[segs[-2]]:
                idx = self.discr(segs[-2], segs[-1]); return EnumV(idx, {idx: Agg(ops)})
            head = type_head(dest_ty)
            if len(segs) == 1 and enums.get(head) and segs[0] in enums[head]:
                idx = self.discr(head, segs[0]); return EnumV(idx, {idx: Agg(ops)})
            if names and self.mir.structs.get(segs[-1]):
                order = self.mir.structs[segs[-1]]
                f = [None] * len(order)
                for n, o in zip(names, ops): f[order.index(n)] = o
                return Agg(f)
            if segs[-1] in ('Level', 'LevelFilter') or (len(segs) >= 2 and segs[-2] in ('Level', 'LevelFilter')): return Opaque('log level')
            if not ops and len(segs) >= 2 and segs[-2][:1].isupper() and segs[-1][:1].isupper() and segs[-2] not in self.mir.structs:
                raise Unsupported(f'unit variant of unknown enum: {path}')
            return Agg(ops)
        raise Unsupported(f'rvalue {rv}')

    def elided_captures(self, span, have, fr, where=''):
        """rustc's MIR printer zips a closure's operands with the *names* of the captured variables, so when two captures are
        disjoint fields of one variable the later operands are not printed. Recover them soundly: a missing operand must be a
        local of the enclosing body that is assigned but never read in the printed text and has exactly the field's type."""
        name = self.mir.closures.get(span)
        if name is None: return []
        body = self.mir.fn_text[name]
        ftys = {int(m.group(1)): m.group(2) for m in re.finditer(r'\((?:_1|\(\*_1\))\.(\d+): ([^;]*?)\)[;,\)\s]', body)}
        need = max(ftys) + 1 if ftys else 0
        if need <= have: return []
        text = fr.fn.text
        def dead(n): return len(re.findall(r'\b_%d\b' % n, text)) == 2 and re.search(r'^\s+let (?:mut )?_%d: ' % n, text, re.M)
        # operands are evaluated in capture order just before the aggregate: the dead temporaries of that block, in statement order
        m = re.search(r' bb(\d+)$', where or '')
        cands = []
        if m:
            for stt in fr.fn.blocks[int(m.group(1))][0]:
                if stt[0] == 'assign' and stt[1][0] == 'local' and dead(stt[1][1]): cands.append(stt[1][1])
                if stt[0] == 'assign' and stt[2][0] == 'aggn' and stt[2][1] == '{closure@' + span + '}': break
        missing = list(range(have, need))
        if len(cands) != len(missing) or any(k not in ftys or fr.fn.types.get(n, '').strip() != ftys[k].strip() for k, n in zip(missing, cands)):
            # not recoverable (e.g. a capture moved straight out of a field has no temporary): leave them uninitialised, so that
            # executing a closure body that touches one is refused instead of guessed
            return [None] * len(missing)
        return [self.read_place(('local', n), fr) for n in cands]

    # ---- function execution (layered unrolling, guarded single store)
    def cfg_of(self, fn):
        if hasattr(fn, '_cfg'): return fn._cfg
        succ = {}
        for b, (st, term) in fn.blocks.items():
            t = term[0]
            if t == 'goto': succ[b] = [term[1]]
            elif t == 'switch': succ[b] = [x for _, x in term[2]]
            elif t == 'drop': succ[b] = [term[2]]
            elif t == 'assert': succ[b] = [term[4]]
            elif t == 'call': succ[b] = [term[4]] if term[4] is not None else []
            else: succ[b] = []
        color, back, post = {0: 1}, set(), []
        stack = [(0, iter(succ[0]))]
        while stack:
            u, it = stack[-1]
            adv = False
            for v in it:
                if color.get(v) == 1: back.add((u, v))
                elif v not in color:
                    color[v] = 1; stack.append((v, iter(succ[v]))); adv = True; break
            if not adv: color[u] = 2; post.append(u); stack.pop()
        fn._cfg = (post[::-1], back)
        return fn._cfg

    def call(self, fname, args, guard):
        self.stats['calls'] += 1
        self.fn_used.add(fname)
        fn = self.mir.get_fn(fname)
        fr = Frame(fn)
        for i, a in enumerate(args): fr.root(i + 1).val = a
        rpo, back = self.cfg_of(fn)
        unroll = self.unroll_by_fn.get(fname, self.unroll_by_fn.get(fname.split('>::')[-1], self.unroll)) if back else 0
        guards = {(0, 0): guard}
        self.depth += 1
        if self.depth > 60: raise Unsupported('call depth > 60 (recursion?) at ' + fname)
        for layer in range(unroll + 1):
            for b in rpo:
                g = guards.pop((b, layer), None)
                if g is None or z3.is_false(g): continue
                self.stats['blocks'] += 1
                for tgt, eg in self.exec_block(fr, b, g):
                    if z3.is_false(eg): continue
                    l2 = layer + 1 if (b, tgt) in back else layer
                    if l2 > unroll: self.exceeded.append((fname, eg)); continue
                    key = (tgt, l2)
                    guards[key] = OR(guards[key], eg) if key in guards else eg
            if not guards: break
        self.depth -= 1
        return fr.root(0).val if 0 in fr.roots else UNIT

    def exec_block(self, fr, b, g):
        stmts, term = fr.fn.blocks[b]
        where = f'{fr.fn.name.split(">::")[-1]} bb{b}'
        for s in stmts:
            if s[0] == 'nop': continue
            try:
                if s[0] == 'assign':
                    self.write_place(s[1], self.rvalue(s[2], fr, g, self.type_of(s[1], fr), where), g, fr)
                elif s[0] == 'setdiscr':
                    for c, pl in self.resolve(s[1], fr):
                        v = self.read(pl)
                        vs = v.vars if isinstance(v, EnumV) else {}
                        old = v.tag if isinstance(v, EnumV) else BV(0, 8)
                        self.write(pl, v.rebuild(BV(s[2], 8), vs) if isinstance(v, CoroV) else EnumV(BV(s[2], 8), vs), AND(g, c))
                else: raise Unsupported(f'stmt {s}')
            except Unsupported as e:
                if ' @ ' in str(e): raise
                raise Unsupported(f'{e} @ {fr.fn.name} bb{b}: {s}')
        t = term[0]
        try:
            if t == 'goto': return [(term[1], g)]
            if t == 'return': return []
            if t == 'unreachable':
                self.panics.append((f'unreachable @ {where}', g)); return []
            if t == 'drop': return [(term[2], g)]
            if t == 'assert':
                v = self.operand(term[2], fr)
                ok = NOT(v) if term[1] else v
                self.panics.append((f'assert {term[3][:40]} @ {where}', AND(g, NOT(ok))))
                return [(term[4], AND(g, ok))]
            if t == 'switch':
                v = self.operand(term[1], fr)
                if isinstance(v, EnumV): v = v.tag
                outs, rest = [], TRUE
                for k, tgt in term[2]:
                    if k == 'otherwise': outs.append((tgt, AND(g, rest)))
                    else:
                        if z3.is_bool(v): c = v if int(k) != 0 else NOT(v)
                        else: c = EQ(v, BV(int(k) % (1 << v.size()), v.size()))
                        outs.append((tgt, AND(g, c))); rest = AND(rest, NOT(c))
                return outs
            if t == 'call':
                argv = [self.operand(o, fr) for o in term[3]]
                val = self.dispatch(term[2], argv, g, fr, self.type_of(term[1], fr))
                if term[4] is None: return []
                self.write_place(term[1], val, g, fr)
                return [(term[4], g)]
        except Unsupported as e:
            if ' @ ' in str(e): raise
            raise Unsupported(f'{e} @ {fr.fn.name} bb{b}: {term[:3]}')
        raise Unsupported(f'terminator {term} @ {fr.fn.name} bb{b}')

    # ---- call dispatch
    def dispatch(self, callee, argv, g, fr, dest_ty=''):
        callee = norm_path(callee)
        for pat, fnm in self.cfg.get('stubs', []):      # per-harness environment stubs (in-crate code treated as environment; listed in the evidence)
            if pat.fullmatch(callee):
                self.models_used.add('stub:' + fnm.__name__); return fnm(self, callee, argv, g)
        pm = re.fullmatch(r'<\{async (fn body of|block@)(.*)\} as .*Future>::poll', callee)
        if pm:      # polling an in-crate coroutine: its body is the `{closure#k}` whose first parameter is Pin<&mut this coroutine type>
            if not hasattr(self.mir, 'coro_bodies'):
                tab = {}
                for n, t in self.mir.fn_text.items():
                    hm = re.match(r'fn .+?\(_1: Pin<&mut (\{async .*?\})>, _2: ', t)
                    if hm: tab.setdefault(coro_key(hm.group(1)), []).append(n)
                self.mir.coro_bodies = tab
            cands = self.mir.coro_bodies.get(coro_key('{async ' + pm.group(1) + pm.group(2) + '}'), [])
            if len(cands) != 1: raise Unsupported('coroutine body not found for ' + callee)
            return self.call(cands[0], argv, g)
        name = self.lookup_callee(callee)
        if name is not None and not (name in self.mir.derived and name.endswith(('::clone', '::eq', '::ne'))):
            return self.call(name, argv, g)     # in-crate code is executed from its own MIR
        for pat, fnm in self.models:
            if pat.fullmatch(callee):
                self.models_used.add(fnm.__name__)
                self.cur_dest_ty = dest_ty
                return fnm(self, callee, argv, g)
        if name is not None: return self.call(name, argv, g)
        raise Unsupported('no model / definition for callee: ' + callee)

    def lookup_callee(self, callee):
        c = strip_generics(callee)
        m = re.fullmatch(r'<(.+?) as (.+?)>::(\w+)', callee.strip()) or re.fullmatch(r'<(.+?) as (.+?)>::(\w+)(?:::<.*>)?', callee.strip())
        idx = self.mir.index
        if m:
            selfty = type_head(m.group(1)); trait = re.split(r'<', m.group(2))[0].split('::')[-1]
            for key in ((selfty, trait, m.group(3)), (selfty, '*', m.group(3))):
                if key in idx: return idx[key]
            fm = re.fullmatch(r'From<(.+)>', m.group(2).strip())
            if fm and m.group(3) == 'from':
                # derive-generated `impl From<A> for B` (thiserror #[from]): the impl header is not in the source; match on the signature
                key = ('from-sig', selfty, type_head(fm.group(1)))
                if key not in idx:
                    cands = []
                    for n, t in self.mir.fn_text.items():
                        if not n.endswith('>::from'): continue
                        sm = re.match(r'fn .+?\(_1: (.+?)\) -> (.+?) \{\n', t, re.S)
                        if sm and type_head(sm.group(1)) == key[2] and type_head(sm.group(2)) == selfty: cands.append(n)
                    idx[key] = cands[0] if len(cands) == 1 else None
                return idx[key]
            return None
        segs = [s for s in c.split('::') if s]
        if len(segs) >= 2:
            for key in ((segs[-2], None, segs[-1]), (segs[-2], '*', segs[-1])):
                if key in idx: return idx[key]
        if segs and (None, None, segs[-1]) in idx and (len(segs) == 1 or not segs[-2][:1].isupper()):
            return idx[(None, None, segs[-1])]
        if len(segs) >= 2 and segs[-2][:1].isupper():
            # macro-generated inherent methods (e.g. #[derive(Boxed)]): match on the receiver type of the definition
            key = ('bymeth', segs[-2], segs[-1])
            if key not in idx:
                cands = []
                for n, t in self.mir.fn_text.items():
                    if n.endswith('>::' + segs[-1]):
                        m = re.match(r'fn .+?\(_1: ([^,)]+)', t)
                        if m and type_head(m.group(1)) == segs[-2]: cands.append(n)
                idx[key] = cands[0] if len(cands) == 1 else None
            return idx[key]
        return None

    def call_closure(self, cv, args, g):
        if isinstance(cv, Ptr): cv = self.load(cv)
        if isinstance(cv, FnItem):
            return self.dispatch(cv.name, list(args), g, None)
        if not isinstance(cv, ClosureV): raise Unsupported(f'call of non-closure {cv!r}')
        name = self.mir.closures.get(cv.span)
        if name is None: raise Unsupported('closure body not found: ' + cv.span)
        fn = self.mir.get_fn(name)
        if re.match(r'_1: &', fn.params): first = ref_to(cv.env, 'closure-env')
        else: first = cv.env
        # closure params after the env are untupled in MIR bodies
        return self.call(name, [first] + list(args), g)
