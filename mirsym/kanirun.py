"""Engine E2: Kani harness crate /verif/kani (path dependency on /repo, rebuilt from the current working tree every run).
A failing harness is re-run with concrete playback; the generated unit test is executed natively (dev and release)
and only a reproducing failure is reported as a violation."""
import os, re, subprocess, shutil, time, json
from .harness import VERIF, REPO, CACHE, Inconclusive

def _crate_for_repo():
    crate = os.path.join(VERIF, 'kani')
    if os.path.realpath(REPO) != '/repo':
        alt = os.path.join(CACHE, 'kani-src')
        shutil.rmtree(alt, ignore_errors=True); shutil.copytree(crate, alt, ignore=shutil.ignore_patterns('target', 'Cargo.lock'))
        t = open(os.path.join(alt, 'Cargo.toml')).read().replace('path = "/repo"', f'path = "{os.path.realpath(REPO)}"')
        open(os.path.join(alt, 'Cargo.toml'), 'w').write(t); crate = alt
    shutil.copy(os.path.join(REPO, 'Cargo.lock'), os.path.join(crate, 'Cargo.lock'))
    return crate

def run_kani(harnesses, timeout_s=1500, jobs=4):
    """returns list of {harness, status: 'success'|'failed'|'inconclusive', checks, covers, seconds, detail}"""
    crate = _crate_for_repo()
    env = dict(os.environ, CARGO_NET_OFFLINE='true'); env.pop('RUSTFLAGS', None)
    cmd = ['cargo', 'kani', '--target-dir', os.path.join(CACHE, 'kani-target'), '--output-format', 'terse']
    for h in harnesses: cmd += ['--harness', h]
    t0 = time.time()
    try:
        r = subprocess.run(cmd, cwd=crate, env=env, stdout=subprocess.PIPE, stderr=subprocess.STDOUT, text=True, timeout=timeout_s)
        out = r.stdout
    except subprocess.TimeoutExpired as e:
        out = (e.stdout or b'').decode() if isinstance(e.stdout, bytes) else (e.stdout or '')
        out += '\nTIMEOUT'
    results = {}
    # per-harness sections start with "Checking harness <name>..."
    parts = re.split(r'Checking harness ([\w:]+)\.\.\.', out)
    for i in range(1, len(parts), 2):
        name, body = parts[i], parts[i + 1]
        short = name.split('::')[-1]
        m = re.search(r'\*\* (\d+) of (\d+) failed', body)
        cov = re.search(r'\*\* (\d+) of (\d+) cover properties satisfied', body)
        tm = re.search(r'Verification Time: ([\d.]+)s', body)
        if 'VERIFICATION:- SUCCESSFUL' in body: st = 'success'
        elif 'VERIFICATION:- FAILED' in body: st = 'failed'
        else: st = 'inconclusive'
        detail = ''
        if st == 'failed':
            fc = re.search(r'Failed Checks:(.*?)(?:\n\n|\Z)', body, re.S)
            detail = (fc.group(0) if fc else body[-1500:])[:1500]
            if 'unwinding assertion' in body: st = 'inconclusive'; detail = 'unwinding assertion failed (bound too small): ' + detail
        if cov and cov.group(1) != cov.group(2) and st == 'success':
            st = 'inconclusive'; detail = f'vacuity: only {cov.group(1)} of {cov.group(2)} cover properties satisfied'
        results[short] = {'harness': name, 'status': st, 'checks': int(m.group(2)) if m else 0, 'covers': cov.group(0) if cov else None,
                          'seconds': float(tm.group(1)) if tm else None, 'detail': detail}
    for h in harnesses:
        if h not in results:
            results[h] = {'harness': h, 'status': 'inconclusive', 'checks': 0, 'covers': None, 'seconds': None,
                          'detail': 'no verdict (build failure, timeout or out of memory): ' + out[-1200:]}
    return [results[h] for h in harnesses], time.time() - t0

def playback(harness, replay_dir):
    """concrete playback of a failing harness: returns (reproduced?, path of the generated test)"""
    crate = _crate_for_repo()
    env = dict(os.environ, CARGO_NET_OFFLINE='true'); env.pop('RUSTFLAGS', None)
    cmd = ['cargo', 'kani', '--target-dir', os.path.join(CACHE, 'kani-target'), '--output-format', 'terse', '--harness', harness,
           '-Z', 'concrete-playback', '--concrete-playback=print']
    r = subprocess.run(cmd, cwd=crate, env=env, stdout=subprocess.PIPE, stderr=subprocess.STDOUT, text=True, timeout=1500)
    m = re.search(r'```\n?(#\[test\].*?)```', r.stdout, re.S) or re.search(r'(#\[test\]\s*fn kani_concrete_playback.*?\n}\n)', r.stdout, re.S)
    if not m: return False, None, 'no concrete playback test was produced'
    test = m.group(1)
    tname = re.search(r'fn (kani_concrete_playback_\w+)', test).group(1)
    # scratch copy of the harness crate with the generated test inserted next to the harness
    scratch = os.path.join(CACHE, 'kani-playback')
    shutil.rmtree(scratch, ignore_errors=True); shutil.copytree(crate, scratch, ignore=shutil.ignore_patterns('target'))
    src = open(os.path.join(scratch, 'src/lib.rs')).read()
    mod = 'c20' if 'c20' in open(os.path.join(crate, 'src/lib.rs')).read().split(f'fn {harness}')[0].rsplit('mod ', 1)[-1][:4] else 'c08'
    idx = src.index(f'fn {harness}')
    end = src.index('\n}\n', idx)      # end of the enclosing module
    src = src[:end] + '\n' + '\n'.join('  ' + l for l in test.split('\n')) + src[end:]
    open(os.path.join(scratch, 'src/lib.rs'), 'w').write(src)
    os.makedirs(replay_dir, exist_ok=True)
    path = os.path.join(replay_dir, f'{harness}_playback.rs'); open(path, 'w').write(test)
    ok = False; log = ''
    for extra in ([], ['--release']):
        p = subprocess.run(['cargo', 'kani', 'playback', '-Z', 'concrete-playback'] + extra + ['--', tname], cwd=scratch, env=env, stdout=subprocess.PIPE, stderr=subprocess.STDOUT, text=True, timeout=1500)
        log += p.stdout[-800:]
        if re.search(r'test result: FAILED|panicked at', p.stdout): ok = True
    shutil.rmtree(os.path.join(scratch, 'target'), ignore_errors=True)
    return ok, path, log
