"""Developer tools: python3-vt -m mirsym.tools callees <Type::method> ..."""
import sys, re
from .dump import load_mir
from .engine import Engine, Unsupported
from . import models

def callee_closure(mir, entries):
    eng = Engine(mir)
    seen, todo, ext = set(), list(entries), {}
    while todo:
        n = todo.pop()
        if n in seen: continue
        seen.add(n)
        try: fn = mir.get_fn(n)
        except Exception as e:
            print('PARSE FAIL', n, e); continue
        for b, (st, term) in fn.blocks.items():
            for s in st:
                if s[0] == 'assign' and s[2][0] in ('agg', 'aggn') and s[2][1].startswith('{closure@'):
                    span = s[2][1][len('{closure@'):-1]
                    if span in mir.closures: todo.append(mir.closures[span])
            if term[0] == 'call':
                c = term[2]
                for o in term[3]:
                    if o[0] == 'const':
                        m = re.match(r'ZeroSized: \{closure@(.*)\}$', o[1])
                        if m and m.group(1) in mir.closures: todo.append(mir.closures[m.group(1)])
                d = eng.lookup_callee(c)
                if d and not (d in mir.derived and d.endswith(('::clone', '::eq', '::ne'))): todo.append(d); continue
                if any(p.fullmatch(c) for p, _ in eng.models):
                    ext.setdefault(('MODEL', c), set()).add(n); continue
                if d: todo.append(d)
                else: ext.setdefault(('MISSING', c), set()).add(n)
    return seen, ext

if __name__ == '__main__':
    cmd = sys.argv[1]
    mir = load_mir(default_features='--default' in sys.argv)
    args = [a for a in sys.argv[2:] if not a.startswith('--')]
    if cmd == 'callees':
        entries = []
        for a in args:
            ty, meth = a.split('::')
            entries.append(mir.find(ty if ty != '_' else None, meth, '*' if ty != '_' else None))
        seen, ext = callee_closure(mir, entries)
        print('in-crate functions:', len(seen))
        for n in sorted(seen): print('  ', n)
        for (k, c), users in sorted(ext.items()):
            print(k, c, '   <-', sorted(u.split('>::')[-1] for u in users)[:3])
    elif cmd == 'show':
        for a in args:
            ty, meth = a.split('::')
            print(mir.fn_text[mir.find(ty if ty != '_' else None, meth, '*' if ty != '_' else None)])
