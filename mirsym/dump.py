"""Regenerate the MIR dump of /repo's current working tree (never stale: the crate's own fingerprint is removed first)."""
import os, subprocess, shutil, glob, hashlib, time, fcntl
from . import rsdefs
from .engine import Mir

REPO = os.environ.get('VERIF_REPO', '/repo')
CACHE = os.environ.get('VERIF_CACHE', os.path.join(os.path.dirname(os.path.dirname(os.path.abspath(__file__))), '.cache'))

def tree_hash(repo=REPO):
    h = hashlib.sha256()
    for dirpath, dirs, files in os.walk(os.path.join(repo, 'src')):
        dirs.sort()
        for f in sorted(files):
            p = os.path.join(dirpath, f)
            h.update(p.encode()); h.update(open(p, 'rb').read())
    for f in ('Cargo.toml', 'Cargo.lock'):
        h.update(open(os.path.join(repo, f), 'rb').read())
    return h.hexdigest()[:16]

def dump_mir(default_features=False, repo=REPO, force=False):
    """returns (path to mir text, seconds, cached?)"""
    os.makedirs(CACHE, exist_ok=True)
    tag = 'default' if default_features else 'nodefault'
    th = tree_hash(repo)
    out = os.path.join(CACHE, f'mir_{tag}_{th}.txt')
    lock = open(os.path.join(CACHE, f'mir_{tag}.lock'), 'w')
    fcntl.flock(lock, fcntl.LOCK_EX)
    try:
        # the dump is keyed by a hash of the current source tree: an edit to /repo always re-runs rustc
        if os.path.exists(out) and os.path.getsize(out) > 100000 and not force:
            return out, 0.0, True
        for old in glob.glob(os.path.join(CACHE, f'mir_{tag}_*.txt')): os.remove(old)
        target = os.path.join(CACHE, f'mir-target-{tag}')
        for fp in glob.glob(os.path.join(target, 'debug/.fingerprint/deno_graph-*')): shutil.rmtree(fp, ignore_errors=True)
        cmd = ['cargo', '+nightly', 'rustc', '--offline', '--lib'] + ([] if default_features else ['--no-default-features']) + \
              ['--', '-Zunpretty=mir', '-C', 'debug-assertions=off', '-Awarnings']
        env = dict(os.environ, CARGO_TARGET_DIR=target, CARGO_NET_OFFLINE='true')
        env.pop('RUSTFLAGS', None)
        t0 = time.time()
        r = subprocess.run(cmd, cwd=repo, env=env, stdout=subprocess.PIPE, stderr=subprocess.PIPE, text=True)
        if r.returncode != 0 or len(r.stdout) < 100000:
            raise RuntimeError('MIR dump failed:\n' + r.stderr[-3000:])
        tmp = out + '.tmp'
        open(tmp, 'w').write(r.stdout); os.replace(tmp, out)
        return out, time.time() - t0, False
    finally:
        fcntl.flock(lock, fcntl.LOCK_UN)

def load_mir(default_features=False, repo=REPO, force=False):
    path, secs, cached = dump_mir(default_features, repo, force)
    feats = rsdefs.feature_closure(os.path.join(repo, 'Cargo.toml'), default_features)
    enums, structs = rsdefs.parse_defs(repo, feats)
    for k, v in rsdefs.EXTERNAL_ENUMS.items(): enums.setdefault(k, v)
    mir = Mir(open(path).read(), repo, enums, structs)
    mir.qualified = dict(rsdefs.parse_defs.qualified)
    mir.dump_path, mir.dump_secs, mir.dump_cached, mir.features = path, secs, cached, feats
    return mir
