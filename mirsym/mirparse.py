"""MIR text parser (rustc nightly -Zunpretty=mir). Refuses what it does not recognise."""
import re

class P:
    def __init__(self, s): self.s, self.i = s, 0
    def peek(self, n=1): return self.s[self.i:self.i+n]
    def eat(self, t):
        if self.s.startswith(t, self.i): self.i += len(t); return True
        return False
    def expect(self, t):
        if not self.eat(t): raise SyntaxError(f'expected {t!r} at {self.s[self.i:self.i+40]!r} in {self.s!r}')
    def ws(self):
        while self.peek() == ' ': self.i += 1
    def done(self): return self.i >= len(self.s)
    def balanced_until(self, stops):
        depth, j = 0, self.i
        while j < len(self.s):
            c = self.s[j]
            if c in '([{<': depth += 1
            elif c in ')]}>':
                if c == '>' and j > 0 and self.s[j-1] == '-': j += 1; continue
                if depth == 0 and c in stops: break
                depth -= 1
            elif depth == 0 and c in stops: break
            j += 1
        r = self.s[self.i:j]; self.i = j; return r

def parse_place(p):
    p.ws()
    if p.eat('('):
        if p.eat('*'):
            inner = parse_place(p); p.expect(')'); base = ('deref', inner)
        else:
            inner = parse_place(p); p.ws()
            if p.eat('as '):
                m = re.match(r'[A-Za-z_][A-Za-z0-9_#]*', p.s[p.i:]); name = m.group(0); p.i += len(name); p.expect(')')
                base = ('downcast', inner, name)
            elif p.eat('.'):
                m = re.match(r'\d+', p.s[p.i:]); n = int(m.group(0)); p.i += len(m.group(0)); p.expect(': ')
                ty = p.balanced_until(')'); p.expect(')')
                base = ('field', inner, n, ty)
            else: raise SyntaxError('place paren: ' + p.s[p.i:])
    else:
        m = re.match(r'_(\d+)', p.s[p.i:])
        if not m: raise SyntaxError('place: ' + p.s[p.i:])
        p.i += len(m.group(0)); base = ('local', int(m.group(1)))
    while p.peek() == '[':
        p.i += 1; idx = p.balanced_until(']'); p.expect(']'); base = ('index', base, idx)
    return base

def parse_operand(p):
    p.ws()
    p.eat('no_retag ')
    if p.eat('copy '): return ('copy', parse_place(p))
    if p.eat('move '): return ('move', parse_place(p))
    if p.eat('const '): return ('const', p.balanced_until(',)]}').strip())
    return ('const', 'fnitem ' + p.balanced_until(',)]}').strip())

BINOPS = {'Eq','Ne','Lt','Le','Gt','Ge','Add','Sub','Mul','Div','Rem','BitAnd','BitOr','BitXor','Shl','Shr','AddWithOverflow','SubWithOverflow','MulWithOverflow','Offset','Cmp','AddUnchecked','SubUnchecked','MulUnchecked','ShlUnchecked','ShrUnchecked'}
UNOPS = {'Not','Neg','PtrMetadata'}

def split_path_aggregate(s):
    """find end of the type path of an aggregate rvalue"""
    depth = 0; j = 0
    while j < len(s):
        c = s[j]
        if s.startswith('{closure', j) or s.startswith('{async', j) or s.startswith('{coroutine', j): j = s.index('}', j) + 1; continue
        if c in '<[': depth += 1
        elif c in '>]' and not (c == '>' and s[j-1] == '-'): depth -= 1
        elif depth == 0 and (c == '(' or s.startswith(' { ', j) or s.startswith(' {}', j)): break
        j += 1
    return j

def parse_rvalue(s):
    p = P(s)
    for pre in ('&raw const ', '&raw mut ', '&mut ', '&fake shallow ', '&'):
        if p.eat(pre):
            pl = parse_place(p)
            if not p.done(): raise SyntaxError('ref tail: ' + s)
            return ('ref', pre.strip(), pl)
    if p.eat('discriminant('):
        pl = parse_place(p); p.expect(')'); return ('discr', pl)
    m = re.match(r'([A-Za-z]+)\(', s)
    if m and m.group(1) in BINOPS:
        p.i = len(m.group(0)); a = parse_operand(p); p.expect(', '); b = parse_operand(p); p.expect(')'); return ('binop', m.group(1), a, b)
    if m and m.group(1) in UNOPS:
        p.i = len(m.group(0)); a = parse_operand(p); p.expect(')'); return ('unop', m.group(1), a)
    if s.startswith(('copy ', 'move ', 'const ', 'no_retag ')):
        op = parse_operand(p)
        if p.done(): return ('use', op)
        p.ws()
        if p.eat('as '):
            rest = s[p.i:]; mm = re.match(r'(.*) \((\w+(?:\(.*\))?)\)$', rest)
            return ('cast', op, mm.group(1), mm.group(2))
        raise SyntaxError('use tail: ' + s)
    if s.startswith('('):
        p.i = 1; items = []
        while not p.eat(')'):
            items.append(parse_operand(p)); p.eat(', ') or p.eat(',')
        if not p.done(): raise SyntaxError('tuple tail: ' + s)
        return ('tuple', items)
    if s.startswith('['):
        p.i = 1; items = []
        while not p.eat(']'):
            items.append(parse_operand(p))
            if p.eat('; '): n = p.balanced_until(']'); p.expect(']'); return ('repeat', items[0], n)
            p.eat(', ')
        return ('array', items)
    j = split_path_aggregate(s); path = s[:j]
    if j == len(s): return ('agg', path, [])
    if s[j] == '(':
        p.i = j + 1; items = []
        while not p.eat(')'):
            items.append(parse_operand(p)); p.eat(', ')
        if not p.done(): raise SyntaxError('agg tail: ' + s)
        return ('agg', path, items)
    if s.startswith(' {}', j): return ('agg', path, [])
    p.i = j + 3; items = []
    while not p.eat('}'):
        mm = re.match(r'(\w+): ', s[p.i:]); p.i += len(mm.group(0)); items.append((mm.group(1), parse_operand(p))); p.eat(', ') or p.eat(' ')
    return ('aggn', path, items)

NOPS = ('StorageLive(', 'StorageDead(', 'FakeRead(', 'PlaceMention(', 'AscribeUserType(', 'Retag(', 'Coverage::', 'ConstEvalCounter', 'BackwardIncompatibleDropHint', 'Deinit(', 'nop')

def parse_stmt(s):
    if s.startswith(NOPS): return ('nop',)
    m = re.match(r'discriminant\((.*)\) = (\d+);$', s)
    if m: return ('setdiscr', parse_place(P(m.group(1))), int(m.group(2)))
    if not s.endswith(';'): raise SyntaxError('stmt: ' + s)
    p = P(s[:-1]); pl = parse_place(p); p.expect(' = ')
    return ('assign', pl, parse_rvalue(p.s[p.i:]))

def split_call(call):
    depth = 0
    for j in range(len(call) - 1, -1, -1):
        c = call[j]
        if c == ')': depth += 1
        elif c == '(':
            depth -= 1
            if depth == 0: break
    callee, args = call[:j], call[j+1:-1]
    p = P(args); ops = []
    while not p.done():
        ops.append(parse_operand(p)); p.eat(', ')
    return callee, ops

def parse_term(s):
    if s in ('return;', 'unreachable;', 'resume;', 'terminate(cleanup);', 'terminate(abi);'): return (s[:-1],)
    m = re.match(r'goto -> bb(\d+);$', s)
    if m: return ('goto', int(m.group(1)))
    m = re.match(r'switchInt\((.*)\) -> \[(.*)\];$', s)
    if m: return ('switch', parse_operand(P(m.group(1))), [(k, int(t[2:])) for k, t in (c.split(': ') for c in m.group(2).split(', '))])
    m = re.match(r'drop\((.*)\) -> \[return: bb(\d+), unwind', s)
    if m: return ('drop', parse_place(P(m.group(1))), int(m.group(2)))
    m = re.match(r'assert\((!?)(.*?), "(.*)\) -> \[success: bb(\d+), unwind', s)
    if m: return ('assert', m.group(1) == '!', parse_operand(P(m.group(2))), m.group(3), int(m.group(4)))
    m = re.match(r'(.*?) = (.*) -> \[return: bb(\d+), unwind', s)
    if m:
        callee, ops = split_call(m.group(2))
        return ('call', parse_place(P(m.group(1))), callee, ops, int(m.group(3)))
    m = re.match(r'(.*?) = (.*) -> unwind', s)
    if m:
        callee, ops = split_call(m.group(2))
        return ('call', parse_place(P(m.group(1))), callee, ops, None)
    m = re.match(r'(.*?) = (.*\)) -> bb\d+;$', s)      # diverging call whose only edge is the unwind (cleanup) edge
    if m:
        callee, ops = split_call(m.group(2))
        return ('call', parse_place(P(m.group(1))), callee, ops, None)
    m = re.match(r'(.*?) = (.*\));$', s)
    if m:
        callee, ops = split_call(m.group(2))
        return ('call', parse_place(P(m.group(1))), callee, ops, None)
    raise SyntaxError('term: ' + s)

class Fn:
    def __init__(self, name, text):
        self.name, self.text = name, text
        hdr = re.match(r'fn (.+?)\((.*?)\) -> (.+?) \{\n', text, re.S)
        self.params = hdr.group(2)
        self.nargs = len(re.findall(r'(?:^|, )_\d+: ', hdr.group(2)))
        self.ret = hdr.group(3)
        self.types = {int(m.group(1)): m.group(2) for m in re.finditer(r'^\s+let (?:mut )?_(\d+): (.*);$', text, re.M)}
        p = P(hdr.group(2))
        while not p.done():
            m = re.match(r'_(\d+): ', p.s[p.i:]); p.i += len(m.group(0)); ty = p.balanced_until(','); self.types[int(m.group(1))] = ty; p.eat(', ')
        self.blocks, self.cleanup = {}, set()
        for m in re.finditer(r'^    bb(\d+)( \(cleanup\))?: \{\n(.*?)^    \}', text, re.S | re.M):
            n = int(m.group(1))
            if m.group(2): self.cleanup.add(n); continue
            lines = [l.strip() for l in m.group(3).strip().split('\n')]
            self.blocks[n] = ([parse_stmt(l) for l in lines[:-1]], parse_term(lines[-1]))

def split_functions(txt):
    fns, consts = {}, {}
    for part in re.split(r'\n(?=(?:fn|const|static) )', txt):
        m = re.match(r'fn (.+?)\((.*?)\) -> (.+?) \{\n', part, re.S)
        if m: fns[m.group(1)] = part; continue
        m = re.match(r'const (\S+): (.+?) = const (.+?);', part)
        if m: consts[m.group(1)] = (m.group(2), m.group(3))
        m = re.match(r'const (.+?promoted\[\d+\]): (.+?) = \{\n', part)
        if m: fns[m.group(1)] = 'fn ' + m.group(1) + '() -> ' + m.group(2) + part[part.index(' {\n'):]
    return fns, consts
